"""Worker process: executes an interleaved share of buckets of one property's run space.

Writes one JSON line per run to ``--out`` and a final ``{"done": true}`` line. Wall-clock is
read only for budgeting (which buckets get started) — it never enters a world or a run.
"""

from __future__ import annotations

import argparse
import json
import os
import sys
import time
import traceback


def main(argv=None):
    ap = argparse.ArgumentParser()
    ap.add_argument("--prop", required=True)
    ap.add_argument("--tier", required=True)
    ap.add_argument("--seed", type=int, required=True)
    ap.add_argument("--worker", type=int, required=True)
    ap.add_argument("--nworkers", type=int, required=True)
    ap.add_argument("--out", required=True)
    ap.add_argument("--soft", type=float, required=True)
    ap.add_argument("--buckets", type=int, required=True)
    ap.add_argument("--recheck", type=int, default=8)
    ap.add_argument("--indices", default="")  # explicit run indices (determinism cross-check)
    ap.add_argument("--replay-dir", default="")
    ap.add_argument("--no-shrink", action="store_true")
    a = ap.parse_args(argv)

    import faulthandler

    faulthandler.enable()
    faulthandler.dump_traceback_later(max(a.soft * 4, 600), exit=True)

    from sim import core
    from sim.props import SPECS
    from sim.shrink import shrink

    core.assert_flowjax_from_repo()
    spec = SPECS[a.prop]
    K = spec.bucket_k
    t0 = time.monotonic()
    out = open(a.out, "w")

    def emit(o):
        out.write(core.canon_json(o) + "\n")
        out.flush()

    if a.indices:
        plan = [[int(i) for i in a.indices.split(",") if i != ""]]
    else:
        plan = [list(range(b * K, (b + 1) * K)) for b in range(a.worker, a.buckets, a.nworkers)]

    n_runs = 0
    n_viol = 0
    executed = []  # worlds this process has executed so far, in order (its process history)
    seen_clauses, shrunk_clauses = set(), set()
    samples = []
    sample_faulted = None
    buckets_done = 0
    stopped_early = False
    for bucket in plan:
        if time.monotonic() - t0 > a.soft:
            stopped_early = True
            break
        for idx in bucket:
            world = spec.world_for(a.tier, a.seed, idx)
            try:
                result = spec.run(world)
                V, P, mode = spec.oracle(world, result)
                dg = spec.digest(result)
                rechecked = False
                if a.recheck and idx % a.recheck == 0 and not result.get("exception"):
                    rechecked = True
                    result2 = spec.run(world)
                    if spec.digest(result2) != dg:
                        V.append(
                            {
                                "clause": "determinism.same_key_same_run",
                                "detail": "the same world (same key, data, knobs) produced a different history or result",
                            }
                        )
            except Exception:  # noqa: BLE001 - harness trouble, never a violation
                emit({"idx": idx, "harness_error": traceback.format_exc()[-2000:]})
                continue
            nt = bool(spec.nontrivial(world, result))
            sig = core.digest(spec.signature(world, result, P, mode))[:16]
            line = {
                "idx": idx,
                "digest": dg,
                "sig": sig,
                "nontrivial": nt,
                "mode": mode,
                "probes": P,
                "fired": spec.fired(world, result, P),
                "ltime": spec.logical_time(result),
                "rechecked": rechecked,
                "violations": V,
            }
            if result.get("kind") == "group":
                line["sched_sig"] = core.digest(result["out"]["schedule"])[:16]
                line["yields"] = result["out"]["yields"]
                line["switches"] = len(result["out"]["schedule"]["switches"])
                line["callers"] = len(result["members"])
            if V:
                clause = V[0]["clause"]
                mini, evals = (world, 0)
                n_viol += 1
                line["clause"] = clause
                emit(dict(line, provisional=True))  # survives a kill during shrinking / fresh-process replay
                seen_clauses.add(clause)
                # shrink and write replay files for the first few violations (and the first of each
                # new clause) only: a badly broken tree fails thousands of runs
                full = n_viol <= 3 or clause not in shrunk_clauses
                if full:
                    shrunk_clauses.add(clause)
                if not a.no_shrink and full:
                    try:
                        mini, evals = shrink(spec, spec.prepare_for_shrink(world, result), clause)
                    except Exception:  # noqa: BLE001
                        mini, evals = world, -1
                prefix, fresh_note, fresh_digest = [], "not verified in a fresh process", None
                if not a.no_shrink and full and a.replay_dir and time.monotonic() - t0 < a.soft * 2.5:
                    try:
                        from sim import fresh

                        mini, prefix, fresh_note, fresh_digest = fresh.settle_replay(a.prop, clause, mini, world, executed)
                    except Exception as e:  # noqa: BLE001
                        fresh_note = f"fresh-process verification failed to run: {type(e).__name__}"
                replay = {
                    "property": a.prop,
                    "tier": a.tier,
                    "seed": a.seed,
                    "idx": idx,
                    "clause": clause,
                    "detail": V[0]["detail"],
                    "all_clauses": sorted({v["clause"] for v in V}),
                    "world": mini,
                    "original_world": world,
                    "shrink_evals": evals,
                    "repo": core.repo_identity(),
                    "prefix_worlds": prefix,
                    "fresh_process": fresh_note,
                }
                try:
                    res_m = spec.run(mini)
                    Vm, _, _ = spec.oracle(mini, res_m)
                    replay["digest"] = fresh_digest or spec.digest(res_m)
                    replay["detail_minimised"] = next((v["detail"] for v in Vm if v["clause"] == clause), None)
                    replay["trace"] = spec.sample_view(mini, res_m, {}, "replay")
                except Exception:  # noqa: BLE001
                    replay["digest"] = None
                if a.replay_dir and full:
                    os.makedirs(a.replay_dir, exist_ok=True)
                    path = os.path.join(a.replay_dir, f"{a.prop}-{a.seed}-{idx}.json")
                    with open(path, "w") as f:
                        f.write(json.dumps(core.jsonable(replay), indent=1, sort_keys=True))
                    line["replay"] = path
                line["clause"] = clause
                line["world_min"] = mini
            emit(line)
            executed.append(world)
            n_runs += 1
            if nt and len(samples) < 2:
                samples.append(spec.sample_view(world, result, P, mode))
            if nt and sample_faulted is None and any(v for v in line["fired"].values()):
                sample_faulted = spec.sample_view(world, result, P, mode)
        buckets_done += 1
        core.maybe_clear_caches()
    if sample_faulted is not None:
        samples.append(sample_faulted)
    emit(
        {
            "done": True,
            "worker": a.worker,
            "runs": n_runs,
            "buckets_done": buckets_done,
            "buckets_planned": len(plan),
            "stopped_early": stopped_early,
            "samples": samples,
            "wall_s": time.monotonic() - t0,
            "maps": core.n_maps(),
        }
    )
    out.close()
    return 0


if __name__ == "__main__":
    sys.exit(main())
