"""Executable reference model of the documented stopping / selection rule (C16).

Pure python over the *recorded* loss lists; ~30 lines. ``nan`` never reaches the strict
functions (worlds containing NaN are checked under the relaxed oracle only).
"""

from __future__ import annotations

import math


def first_argmin(xs):
    best = 0
    for i, v in enumerate(xs):
        if v < xs[best]:
            best = i
    return best


def last_argmin(xs):
    best = 0
    for i, v in enumerate(xs):
        if v <= xs[best]:
            best = i
    return best


def must_stop_after(val_prefix, max_patience, argmin=first_argmin):
    """True iff, after recording ``val_prefix``, more than ``max_patience`` epochs have
    passed since the best validation loss."""
    e = len(val_prefix) - 1
    return (e - argmin(val_prefix)) > max_patience


def data_epochs_to_run(val_stream, max_epochs, max_patience, argmin=first_argmin):
    """Number of epochs the documented rule runs when epoch e would record val_stream[e]."""
    for e in range(max_epochs):
        if must_stop_after(val_stream[: e + 1], max_patience, argmin):
            return e + 1
    return max_epochs


def has_nan(xs):
    return any(isinstance(v, float) and math.isnan(v) for v in xs)


def has_tie_at_running_min(xs):
    """True iff at some prefix the minimum value is attained more than once."""
    for e in range(len(xs)):
        pre = xs[: e + 1]
        m = min(pre)
        if sum(1 for v in pre if v == m) > 1:
            return True
    return False
