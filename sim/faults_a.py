"""Engine A: which fault kinds actually fired in a run, and the evidence sample view."""

from __future__ import annotations

import math

from sim.engine_a import classify, row_tags


def fired(world, result, probes):
    calls, _ = classify(result["events"])
    f = {
        "loss_nonfinite_val": 0,
        "loss_nonfinite_train": 0,
        "loss_tie_at_min": int(bool(probes.get("tie_at_min"))),
        "degenerate_batch_1": int(world.get("batch_size") == 1),
        "degenerate_batch_gt_n": int(world.get("batch_size", 0) > world.get("n", 10**9)),
        "degenerate_zero_epochs_or_steps": int(world.get("max_epochs", 1) == 0 or world.get("steps", 1) == 0),
        "degenerate_patience_0": int(world.get("max_patience", 1) == 0),
        "loss_near_tie": 0,
    }
    if world.get("prop") == "C16":
        # history kind: the loss sequence shares a prefix with the run executed just before it in the same process
        f["related_history_prefix_shared"] = int(bool((world.get("faults") or {}).get("related_history")))
    vals = sorted(c["loss"]["value"] for c in calls if c["kind"] != "P" and math.isfinite(c["loss"]["value"]))
    for a, b in zip(vals, vals[1:]):
        if a != b and abs(a - b) <= 1e-5 * max(abs(a), abs(b), 1e-3):
            f["loss_near_tie"] = 1
            break
    for c in calls:
        if c["kind"] == "P":
            continue
        v = c["loss"]["value"]
        if math.isnan(v) or math.isinf(v):
            if c["kind"] == "N":
                f["loss_nonfinite_val"] += 1
            else:
                f["loss_nonfinite_train"] += 1
    return f


def sample_view(world, result, probes, mode):
    calls, _ = classify(result["events"])
    hist = []
    for c in calls[:40]:
        if c["kind"] == "P":
            continue
        tags, _ = row_tags(c["loss"])
        hist.append(
            {
                "seq": c["loss"]["seq"],
                "kind": "gradient" if c["kind"] == "G" else "validation",
                "rows": tags,
                "c": c["loss"]["c"],
                "value": c["loss"]["value"],
                "key": c["loss"]["key"],
            }
        )
    w = {k: v for k, v in world.items() if k not in ("script",)}
    w["script_head"] = world["script"][:12]
    return {
        "world": w,
        "mode": mode,
        "history_head": hist,
        "losses": result["out"].get("losses"),
        "exception": result.get("exception"),
        "returned_c": result["out"].get("c"),
    }
