"""Text used in evidence: generation rule, assumptions, and clauses not exercised."""

RULES = {
    "C15": (
        "Each run is one call of the real fit_to_data on a seeded world: n in 2..60, batch_size in 1..n+5 "
        "(thorough: every (n,batch_size) pair of that range at least once, then random; quick: random with forced "
        "shares of batch_size=1 and batch_size>=n), val_prop from a 15-point grid of (0,1) restricted so that both "
        "roundings of val_prop*n leave both parts non-empty, 0-2 condition columns, 1-3 x columns, 1-4 epochs, "
        "legacy/typed key, numpy/jax inputs, a scripted loss sequence with occasional +-inf/NaN. Rows carry their own "
        "index in every column; an ordered host callback records the exact rows/condition rows/key of every loss call "
        "and the gradient support of every optimiser update. A run is NON-TRIVIAL if it recorded >=2 epochs and >=1 "
        "gradient step; DISTINCT by signature (n, batch_size, val_prop, #cond cols, #x cols, epochs run, gradient steps, "
        "max_epochs, max_patience, return_best, rank pattern of the recorded validation losses, oracle mode)."
    ),
    "C16": (
        "Each run is one call of the real fit_to_data or fit_to_variational_target driven by a scripted loss (value = "
        "script[number of gradient steps so far]) and a counting optimiser, so the returned parameters name the step they "
        "came from. Scripts are random orderings of distinct integers of length L (L<=7 for most runs, up to 12 quick / 20 "
        "thorough), with injected +-inf, NaN, ties and plateaus; max_patience in 0..L, max_epochs/steps in 0..L+1 (0 "
        "forced in a share), return_best and show_progress both ways, 1-8 train batches and 1-2 validation batches per "
        "epoch. The recorded history is compared with a 30-line executable reference model of the documented stop/"
        "selection rule. NON-TRIVIAL: >=2 epochs/steps recorded and >=1 gradient step; DISTINCT by signature (loop, "
        "shape knobs, epochs/steps run, gradient steps, max_epochs, max_patience, return_best, rank pattern of the "
        "recorded loss sequence, oracle mode)."
    ),
}

ASSUMPTIONS = {
    "C15": [
        "ordered io_callback delivers events in program order (jax guarantee); jax.effects_barrier() flushes them",
        "validation rows are observed through the loss calls made on them; the bound on unseen rows assumes validation, "
        "like training, skips less than one batch per epoch (documented behaviour of get_batches)",
        "exploration is seeded sampling, not enumeration: a clean batch is evidence, not proof",
        "the jr.permutation recording proxy only sharpens the 'trailing remainder' clause; when it is not interpretable the clause is skipped",
    ],
    "C16": [
        "ordered io_callback delivers events in program order; the counting optimiser makes c equal the number of applied gradient steps",
        "with ties at the running minimum or NaN in the recorded losses the statement does not define 'the best'; those runs are checked "
        "under the relaxed oracle (counted separately in oracle_modes); +-inf are ordinary ordered values under the strict oracle",
        "exploration is seeded sampling, not enumeration of all orderings",
    ],
}

NOT_EXERCISED = {}

# probes that a full-budget batch must reach (checked by `selftest reach`)
REQUIRED_PROBES = {
    "C15": ["batch_1", "batch_gt_n", "cond", "remainder_skipped", "val_single_batch", "perm_seam_checked"],
    "C16": ["early_stop_hit", "best_not_last", "best_not_first", "tie_at_min", "nan_in_val", "inf_in_val", "max_epochs_0",
            "patience_0", "multi_val_batches", "multi_train_batches", "vi_steps_0", "nan_in_losses", "inf_in_losses", "ran_to_max"],
}
OPTIONAL_FAULTS = {"C15": ["loss_tie_at_min", "degenerate_zero_epochs_or_steps"]}
