#!/usr/bin/env python3
"""Writes seeded/<id>/meta.json from the evaluation logs (tools_eval_seeded.sh) and notes."""
import json, os, re, sys

ROOT = os.path.join(os.path.dirname(os.path.abspath(__file__)), "seeded")
SCOPE_NOTES = json.load(open(os.path.join(ROOT, "scope_notes.json"))) if os.path.exists(os.path.join(ROOT, "scope_notes.json")) else {}
rows = []
for d in sorted(os.listdir(ROOT)):
    p = os.path.join(ROOT, d)
    if not os.path.isdir(p):
        continue
    prop = d.split("-")[0]
    log = open(os.path.join(p, "eval_full.log")).read() if os.path.exists(os.path.join(p, "eval_full.log")) else ""
    m = re.search(r"RESULT demo_clean_rc=(\d+) demo_patched_rc=(\d+) suite=\[(.*?)\] check_rc=(\d+)", log)
    viol = [ln for ln in log.splitlines() if ln.startswith("VIOLATION")]
    rechecks = {}
    for name in ("eval_recheck16.log", "eval_scale3.log", "eval_recheck_s5.log", "eval_recheck_s6.log"):
        if os.path.exists(os.path.join(p, name)):
            t = open(os.path.join(p, name)).read()
            mm = re.search(r"check_rc=(\d+)", t)
            vv = [ln for ln in t.splitlines() if ln.startswith("VIOLATION")]
            rechecks[name] = {"check_rc": int(mm.group(1)) if mm else None, "first_violation_line": vv[0][:300] if vv else None}
            if (not viol) and vv:
                viol = vv
    notes = open(os.path.join(p, "notes.md")).read() if os.path.exists(os.path.join(p, "notes.md")) else ""
    extra = SCOPE_NOTES.get(d, {})
    meta = {
        "id": d,
        "property": prop,
        "origin": "written by a fresh sub-agent given only the property text and its own scratch worktree of /repo",
        "needs_to_manifest": extra.get("needs") or notes.strip().split("\n\n")[0][:600],
        "confirmed_by_me": {
            "how": "tools_eval_seeded.sh: fresh scratch worktree of /repo HEAD; demo on clean tree, patch applied, demo again, pinned suite, then `bin/check <prop> quick` with VERIF_REPO pointing at the patched worktree (the same check, run against the changed sources; /repo itself is never modified)",
            "demo_clean_rc": int(m.group(1)) if m else None,
            "demo_patched_rc": int(m.group(2)) if m else None,
            "suite": m.group(3) if m else None,
            "check_cmd": f"bin/check {prop} quick",
            "check_rc": int(m.group(4)) if m else None,
        },
        "rechecks": rechecks,
        "caught": bool(viol),
        "caught_in_full_confirmation_run_5_workers": bool(m and m.group(4) == "1"),
        "caught_by_clause": (re.search(r"clause=(\S+)", viol[0]).group(1) if viol else None),
        "first_violation_line": viol[0][:400] if viol else None,
    }
    meta.update({k: v for k, v in extra.items() if k != "needs"})
    json.dump(meta, open(os.path.join(p, "meta.json"), "w"), indent=1)
    rows.append((d, prop, meta["caught"], meta["caught_by_clause"], extra.get("scope", "")))
for r in rows:
    print(r)
