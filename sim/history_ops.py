"""Process-history operations and the invalid-argument rejection panel (engine B).

A training run does not happen in a fresh process: before and after it the same interpreter
builds other objects, and some of those calls *fail* (a typo in a flow constructor, a wrong
shape, an invalid argument rejected as documented). None of that may change what the library
does afterwards. ``HISTORY_OPS`` are such operations (each raises on the tree as found); the
``PANEL`` lists constructor calls with arguments outside the documented constraints — exactly
the classes C11 names: non-positive scale, weights or degrees of freedom, maxval <= minval, a
non-permutation — each of which must be rejected with an error *whatever happened earlier in the
process*.
"""

from __future__ import annotations


def _k():
    import jax.random as jr

    return jr.PRNGKey(0)


def _panel():
    import jax
    import jax.numpy as jnp
    import numpy as np

    import flowjax.bijections as B
    import flowjax.distributions as D

    return {
        "Normal_neg_scale": lambda: D.Normal(0.0, -1.0),
        "Normal_zero_scale": lambda: D.Normal(0.0, 0.0),
        "Normal_vec_one_neg": lambda: D.Normal(jnp.zeros(3), jnp.array([1.0, -0.5, 2.0])),
        "LogNormal_neg_scale": lambda: D.LogNormal(0.0, -1.0),
        "Cauchy_neg_scale": lambda: D.Cauchy(0.0, -1.0),
        "Gumbel_neg_scale": lambda: D.Gumbel(0.0, -2.0),
        "Laplace_neg_scale": lambda: D.Laplace(0.0, -2.0),
        "Logistic_neg_scale": lambda: D.Logistic(0.0, -2.0),
        "StudentT_neg_df": lambda: D.StudentT(-2.0),
        "StudentT_zero_df": lambda: D.StudentT(0.0),
        "StudentT_neg_scale": lambda: D.StudentT(3.0, 0.0, -1.0),
        "Uniform_reversed": lambda: D.Uniform(1.0, 0.0),
        "Uniform_equal": lambda: D.Uniform(1.0, 1.0),
        "Mixture_zero_weight": lambda: D.VmapMixture(jax.vmap(D.Normal)(jnp.arange(3.0)), weights=jnp.array([1.0, 0.0, 1.0])),
        "Mixture_neg_weight": lambda: D.VmapMixture(jax.vmap(D.Normal)(jnp.arange(3.0)), weights=jnp.array([1.0, -1.0, 1.0])),
        "Permute_duplicate": lambda: B.Permute(jnp.array([0, 0, 1])),
        "Permute_out_of_range": lambda: B.Permute(jnp.array([0, 1, 3])),
        "Affine_neg_scale": lambda: B.Affine(0.0, -1.0),
        "Affine_zero_scale": lambda: B.Affine(jnp.zeros(2), jnp.array([1.0, 0.0])),
        "Scale_neg": lambda: B.Scale(jnp.array([-1.0])),
        # the same classes in other ARGUMENT FORMS (numpy / python scalars / float64 / batched with one bad entry / -0.0)
        "Normal_np_neg_scale": lambda: D.Normal(np.zeros(2), np.array([1.0, -1.0])),
        "Normal_int_zero_scale": lambda: D.Normal(0, 0),
        "Normal_negzero_scale": lambda: D.Normal(0.0, -0.0),
        "Normal_f64_tiny_neg_scale": lambda: D.Normal(np.float64(0.0), np.float64(-1e-30)),
        "Normal_matrix_one_zero": lambda: D.Normal(jnp.zeros((2, 2)), jnp.array([[1.0, 2.0], [0.0, 1.0]])),
        "StudentT_vec_one_neg_df": lambda: D.StudentT(jnp.array([3.0, -1.0])),
        "StudentT_np_zero_df": lambda: D.StudentT(np.array(0.0)),
        "Uniform_vec_one_reversed": lambda: D.Uniform(jnp.array([0.0, 1.0]), jnp.array([1.0, 0.5])),
        "Uniform_vec_one_equal": lambda: D.Uniform(jnp.array([0.0, 1.0]), jnp.array([1.0, 1.0])),
        "Uniform_int_equal": lambda: D.Uniform(1, 1),
        "Mixture_np_tiny_neg_weight": lambda: D.VmapMixture(jax.vmap(D.Normal)(jnp.arange(2.0)), weights=np.array([2.0, -1e-6])),
        "Permute_np_duplicate": lambda: B.Permute(np.array([1, 1])),
        "Permute_negative_index": lambda: B.Permute(jnp.array([0, -1, 1])),
        "Permute_2d_duplicate": lambda: B.Permute(jnp.array([[0, 1], [1, 1]])),
        "Scale_vec_one_zero": lambda: B.Scale(jnp.array([1.0, 0.0])),
        "Scale_int_neg": lambda: B.Scale(-2),
        "Affine_np_neg_scale": lambda: B.Affine(np.zeros(2), np.array([1.0, -1.0])),
        "TriangularAffine_zero_diag": lambda: B.TriangularAffine(jnp.zeros(2), jnp.array([[1.0, 0.0], [0.5, 0.0]])),
        "TriangularAffine_neg_diag": lambda: B.TriangularAffine(jnp.zeros(2), jnp.array([[1.0, 0.0], [0.5, -1.0]])),
        "Gumbel_vec_one_zero_scale": lambda: D.Gumbel(jnp.zeros(2), jnp.array([0.0, 1.0])),
        "LogNormal_zero_scale": lambda: D.LogNormal(0.0, 0.0),
    }


def _history_ops():
    import jax.numpy as jnp

    import flowjax.bijections as B
    import flowjax.distributions as D
    import flowjax.flows as F
    from flowjax.train import fit_to_data

    ops = {
        # ---- calls that fail (each raises on the tree as found)
        "fail_planar_flow_cond_without_mlp_sizes": lambda: F.planar_flow(_k(), base_dist=D.Normal(jnp.zeros(2)), cond_dim=2),
        "fail_coupling_flow_bad_transformer": lambda: F.coupling_flow(_k(), base_dist=D.Normal(jnp.zeros(2)), transformer=B.Affine(jnp.ones(3))),
        "fail_maf_bad_transformer": lambda: F.masked_autoregressive_flow(_k(), base_dist=D.Normal(jnp.zeros(2)), transformer=B.Affine(jnp.ones(3))),
        "fail_chain_shape_mismatch": lambda: B.Chain([B.Affine(jnp.ones(2)), B.Affine(jnp.ones(3))]),
        "fail_method_wrong_shape": lambda: B.Affine(jnp.ones(2)).transform(jnp.ones(3)),
        "fail_fit_bad_val_prop": lambda: fit_to_data(_k(), D.Normal(jnp.zeros(2)), jnp.ones((10, 2)), val_prop=2.0, show_progress=False),
        "fail_log_prob_wrong_shape": lambda: D.Normal(jnp.zeros(2)).log_prob(jnp.ones(3)),
        "fail_concatenate_mismatch": lambda: B.Concatenate([B.Affine(jnp.ones((2, 2))), B.Affine(jnp.ones((3, 3)))], axis=0),
        "fail_reshape_element_count": lambda: B.Reshape(B.Affine(jnp.ones(4)), (3,)),
        # ---- calls that succeed
        "ok_coupling_flow": lambda: F.coupling_flow(_k(), base_dist=D.Normal(jnp.zeros(2)), flow_layers=1, nn_width=4, nn_depth=1),
        "ok_maf": lambda: F.masked_autoregressive_flow(_k(), base_dist=D.Normal(jnp.zeros(2)), flow_layers=1, nn_width=4, nn_depth=1),
        "ok_planar_flow": lambda: F.planar_flow(_k(), base_dist=D.Normal(jnp.zeros(2)), flow_layers=1),
        "ok_studentt": lambda: D.StudentT(3.0, 0.0, 2.0),
    }
    # a rejected construction is itself a piece of history
    for name, fn in _panel().items():
        ops["rejected_" + name] = fn
    return ops


PANEL_NAMES = sorted(_n for _n in (
    "Normal_neg_scale", "Normal_zero_scale", "Normal_vec_one_neg", "LogNormal_neg_scale", "Cauchy_neg_scale", "Gumbel_neg_scale",
    "Laplace_neg_scale", "Logistic_neg_scale", "StudentT_neg_df", "StudentT_zero_df", "StudentT_neg_scale", "Uniform_reversed",
    "Uniform_equal", "Mixture_zero_weight", "Mixture_neg_weight", "Permute_duplicate", "Permute_out_of_range", "Affine_neg_scale",
    "Affine_zero_scale", "Scale_neg",
    "Normal_np_neg_scale", "Normal_int_zero_scale", "Normal_negzero_scale", "Normal_f64_tiny_neg_scale", "Normal_matrix_one_zero",
    "StudentT_vec_one_neg_df", "StudentT_np_zero_df", "Uniform_vec_one_reversed", "Uniform_vec_one_equal", "Uniform_int_equal",
    "Mixture_np_tiny_neg_weight", "Permute_np_duplicate", "Permute_negative_index", "Permute_2d_duplicate", "Scale_vec_one_zero",
    "Scale_int_neg", "Affine_np_neg_scale", "TriangularAffine_zero_diag", "TriangularAffine_neg_diag", "Gumbel_vec_one_zero_scale",
    "LogNormal_zero_scale"))
FAIL_OPS = ["fail_planar_flow_cond_without_mlp_sizes", "fail_coupling_flow_bad_transformer", "fail_maf_bad_transformer",
            "fail_chain_shape_mismatch", "fail_method_wrong_shape", "fail_fit_bad_val_prop", "fail_log_prob_wrong_shape",
            "fail_concatenate_mismatch", "fail_reshape_element_count"]
OK_OPS = ["ok_coupling_flow", "ok_maf", "ok_planar_flow", "ok_studentt"]


def draw_history(r):
    """0-3 operations; failing calls are over-represented (they are what leaves state behind)."""
    out = []
    for _ in range(r.choice([0, 1, 1, 2, 3])):
        u = r.random()
        if u < 0.6:
            out.append(r.choice(FAIL_OPS))
        elif u < 0.8:
            out.append("rejected_" + r.choice(PANEL_NAMES))
        else:
            out.append(r.choice(OK_OPS))
    return out


def run_history(names):
    """Execute history operations; returns [(name, 'raised:<Type>' | 'returned')]."""
    ops = _history_ops()
    out = []
    for n in names:
        try:
            ops[n]()
            out.append((n, "returned"))
        except Exception as e:  # noqa: BLE001 - failing calls are the point
            out.append((n, "raised:" + type(e).__name__))
    return out


def run_panel(names):
    """Try each invalid construction; 'accepted' means no error was raised."""
    panel = _panel()
    out = {}
    for n in names:
        try:
            panel[n]()
            out[n] = "accepted"
        except Exception as e:  # noqa: BLE001
            out[n] = "raised:" + type(e).__name__
    return out
