#!/usr/bin/env python3
"""Regenerates MANIFEST.json from the tables below (keeps it schema-valid)."""
import json, os, sys

HERE = os.path.dirname(os.path.abspath(__file__))
BASELINE = "cd /repo && /venv/bin/python -m pytest -ra -q -p no:cacheprovider --timeout=900 --continue-on-collection-errors"

CLAIMED = {
    "C15": dict(
        engine="A",
        technique="deterministic simulation: seeded scripted-training runs of the real fit_to_data with a tagging loss and a counting optimiser; history oracle (partition, alignment, at-most-once, no-val-in-gradient, fresh keys, replay determinism); loss-value fault injection; array forms (rows with several trailing dimensions, float64 / int32 data); groups of 2-3 concurrent callers on real threads under a seeded baton-passing scheduler (pre-emption at every eager line of flowjax/train) with interrupt-and-restart faults, each caller's history compared with the same world run alone",
        text="Seeded exploration (not proof) of whole training runs: every loss call and gradient step of thousands of simulated runs over n in 2..60, batch_size in 1..n+5, a val_prop grid, with/without condition, 1-4 epochs is recorded through ordered host callbacks and checked against oracles that follow from the statement for any implementation. Thorough covers every (n, batch_size) pair of the stated range at least once. One run index in six is a group of concurrent callers whose interleaving is decided by the simulator (DESIGN §12); 'same key => same run' is checked next to other callers and after an interrupted call.",
        note="Trusted: jax ordered io_callback ordering, the tagging-loss construction (gradient w.r.t. w = row multiset), determinism of jax on CPU. Validation rows are only observable through validation loss calls. Threads can be switched only at line events of eagerly executing flowjax/train frames. Sampling, not enumeration.",
        ref="DESIGN.md §3.1, §12",
    ),
    "C16": dict(
        engine="A",
        technique="deterministic simulation: both training loops driven by a scripted loss sequence (incl. +-inf, NaN, ties, near-ties, degenerate knobs) and a counting optimiser; refinement check of the recorded history against an executable reference model of stop/selection; related histories (a run shares a prefix of the loss sequence of the run executed just before it in the same process); seeded search with shrinking and exact replay; concurrent callers under a seeded scheduler with interrupt-and-restart faults (each caller's stop/selection decided from its own losses)",
        text="Seeded exploration of the stop/selection behaviour of both loops: the returned parameters carry the number of gradient steps they came from, so 'which parameters were returned' is an integer compared with a 30-line reference model over the recorded losses. Strict oracle for distinct finite/+-inf losses; narrowly relaxed (and separately counted) for ties and NaN where the statement is silent.",
        note="Trusted: ordered callbacks, the reference model (sim/refmodel.py), the counting optimiser. Seeded sampling of orderings (L<=7 mostly, up to 20); the thorough tier additionally starts with a systematic block of every ordering for L<=7 x max_patience 0..L x max_epochs/steps in {L, L+1} x return_best x both loops (210 638 runs; shorter max_epochs are covered up to rank-equivalence of the loss prefix). Two run indices in sixteen are groups of concurrent callers (DESIGN §12).",
        ref="DESIGN.md §3.2, §12",
    ),
}

PENDING = {}

NA = {
    "C01": "pure function of (bijection, parameters, condition, x): no state, schedule, clock, I/O or fault for a simulator to own; generating inputs would be property-based testing in simulator vocabulary (DESIGN §7)",
    "C02": "pure single-call claim (log-det vs autodiff Jacobian at a point); nothing multi-step or fault-dependent (DESIGN §7)",
    "C03": "pure in (dist, key, x); an explicit functional PRNG key is an argument, not nondeterminism a simulator can own (DESIGN §7)",
    "C04": "global numerical/statistical fact about one pure function (quadrature, goodness of fit); no history or fault dimension (DESIGN §7)",
    "C05": "pure closed-form formulas compared with a reference implementation (DESIGN §7)",
    "C06": "pure shape/broadcast semantics of single calls; 'same key, same result' is functional determinism of jax (DESIGN §7)",
    "C07": "pure formulas of elementary bijections (DESIGN §7)",
    "C08": "pure combinator semantics; the 'programs' are expression trees, not executions (DESIGN §7)",
    "C10": "closed deterministic algorithm over a caller-supplied pure function; no environment to perturb without breaking the precondition (DESIGN §7)",
    "C13": "single-call argument validation; no state or history (DESIGN §7)",
    "C14": "equality of one pure function across jit/vmap/serialisation; the caches and file I/O belong to jax/equinox and no fault behaviour is stated (DESIGN §7)",
    "C17": "loss functions are pure functions of (params, batch, key) (DESIGN §7)",
}


def main():
    extra = {}
    p = os.path.join(HERE, "manifest_extra.json")
    if os.path.exists(p):
        extra = json.load(open(p))
    claimed = dict(CLAIMED)
    claimed.update(extra.get("claimed", {}))
    na = dict(NA)
    for k, v in extra.get("pending", PENDING).items():
        if k not in claimed:
            na[k] = v
    checks = []
    for pid in sorted(claimed):
        c = claimed[pid]
        checks.append({
            "property_id": pid,
            "quick_cmd": f"bin/check {pid} quick",
            "thorough_cmd": f"bin/check {pid} thorough",
            "evidence_file": f"/verif/evidence/{pid}.json",
            "replay_cmd_template": "bin/check --replay {path}",
            "engine": "engine-" + c["engine"],
            "level_claimed": {"category": "exploration", "text": c["text"], "design_ref": c["ref"]},
            "level_note": c["note"],
            "technique": c["technique"],
        })
    m = {
        "version": 1,
        "setup_cmd": "bin/check setup",
        "hooks": {
            "guard": "FLOWJAX_VERIF",
            "enable": "no source hook exists: every seam is a public argument (loss_fn, optimizer, key, x, condition, dist) or a module attribute patched from outside (tqdm, jr). bin/check exports FLOWJAX_VERIF=1 and imports flowjax from /repo's working tree via PYTHONPATH, so checks always run the current sources.",
            "baseline_off_cmd": BASELINE,
            "source_commits": [],
            "add_only": True,
        },
        "engines": [
            {"name": "engine-A", "path": "sim/engine_a.py", "serves_properties": ["C15", "C16"],
             "kind_free_text": "deterministic scripted-training simulator: real training loops, stub model/loss/optimiser owned by the simulator, ordered-callback event log, reference-model and history oracles, greedy shrinker, exact replay; sim/sched.py + sim/concurrent_a.py run groups of caller threads under a seeded baton-passing scheduler (sys.settrace line events as pre-emption points, injected interrupts)"},
            {"name": "engine-B", "path": "sim/engine_b.py", "serves_properties": ["C09", "C11", "C12", "C18"],
             "kind_free_text": "deterministic real-model training simulator: real flowjax models/losses/optax optimisers inside an observing, fault-injecting optimiser wrapper; invariants checked on every recorded parameter state"},
        ],
        "checks": checks,
        "not_applicable": [{"property_id": k, "reason": na[k]} for k in sorted(na)],
        "notes": "Technique family: deterministic simulation with fault injection. Exit codes of every check: 0 pass (KNOWN-FINDING lines allowed), 1 VIOLATION, 2 HARNESS-ERROR (never a pass). VERIF_SEED and VERIF_TIER are honoured; VERIF_WORKERS caps worker processes; VERIF_SCALE scales budgets. `bin/check selftest` runs determinism, sensitivity (seeded mutants in a scratch copy) and reach self-tests. Fixes of genuine defects are unguarded 'fix:' commits in /repo, recorded in known_findings.json.",
    }
    json.dump(m, open(os.path.join(HERE, "MANIFEST.json"), "w"), indent=1)
    import jsonschema
    jsonschema.validate(m, json.load(open(os.path.join(HERE, "schemas", "MANIFEST.schema.json"))))
    print("MANIFEST.json written:", [c["property_id"] for c in checks], "NA:", sorted(na))


if __name__ == "__main__":
    main()
