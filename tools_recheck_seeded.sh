#!/bin/bash
# tools_recheck_seeded.sh <seeded_dir> <PROP> [logname] — re-run only the property's quick check against the
# patched scratch worktree (after the machinery was strengthened); writes <seeded_dir>/<logname>.
set -u
HERE="$(cd "$(dirname "${BASH_SOURCE[0]}")" && pwd)"
D=$(realpath "$1"); P=$2; LOG=${3:-eval_recheck16.log}
WT=$(mktemp -d /tmp/rc-XXXXXX); rmdir "$WT"
git -C /repo worktree add --detach "$WT" HEAD >/dev/null 2>&1 || { echo "worktree failed"; exit 2; }
cleanup() { git -C /repo worktree remove --force "$WT" >/dev/null 2>&1; rm -rf "$WT"; }
trap cleanup EXIT
(cd "$WT" && git apply "$D/patch.diff") || { echo "patch does not apply"; exit 2; }
cd "$HERE"
VERIF_REPO=$WT VERIF_NO_EVIDENCE=1 VERIF_REPLAY_DIR=$D/replays VERIF_WORK=$WT timeout 2400 bin/check $P quick > "$D/$LOG.tmp" 2>&1; rc=$?
{ echo "check_rc=$rc"; grep -vE "^WARNING" "$D/$LOG.tmp"; } > "$D/$LOG"; rm -f "$D/$LOG.tmp"
echo "$(basename $D) check_rc=$rc $(grep -E '^VIOLATION' "$D/$LOG" | head -1 | cut -c1-260)"
