"""World generators for engine B (C09, C11, C12, C18). Pure functions of (tier, seed, idx).

bucket  = everything that shapes compiled programs (model structure, freeze plan, loop, loss,
          optimiser, batch shapes)             <- rng(seed, prop, tier, 'bucket', idx // K)
run     = array values, keys, fault schedule, data, knobs  <- rng(seed, prop, tier, 'run', idx)
"""

from __future__ import annotations

import copy

from sim import zoo
from sim.core import rng_for

K_BUCKET = {"C09": 8, "C11": 8, "C12": 8, "C18": 12}

NAMED = ["Normal", "LogNormal", "MultivariateNormal", "Uniform", "Gumbel", "Cauchy", "StudentT", "Laplace", "Exponential", "Logistic", "VmapMixture"]
OPTS = ["sgd", "adam", "adamw", "rmsprop", "clip_adam"]


# ------------------------------------------------------------------ model structure draws
def _flow_spec(r, flows=("maf", "coupling", "planar"), transformers=("affine", "spline")):
    flow = r.choice(list(flows))
    dim = r.choice([1, 2, 2, 3, 3]) if flow != "coupling" else r.choice([2, 2, 3, 3, 4])
    spec = {"kind": "flow", "flow": flow, "dim": dim, "cond_dim": r.choice([None, None, 2]), "layers": r.choice([1, 2, 2, 3]),
            "invert": r.random() < 0.6}
    if flow == "planar":
        spec["negative_slope"] = r.choice([None, 0.1])
        spec["width"], spec["depth"] = r.choice([2, 3]), r.choice([0, 1])
    else:
        spec["transformer"] = r.choice(list(transformers))
        spec["width"] = r.choice([1, 2, 3, 4, 5])
        spec["depth"] = r.choice([0, 1, 1, 2])
        if spec["transformer"] == "spline":
            spec["knots"] = r.choice([2, 3, 4, 6])
            spec["interval"] = r.choice([[-4.0, 4.0], [-2.0, 2.0], [-1.0, 3.0], [-5.0, 1.0], [0.5, 2.0], [-3.0, -0.5]])
            spec["min_derivative"] = r.choice([1e-3, 1e-2])
            spec["softmax_adjust"] = r.choice([1e-3, 1e-2, 1.0])
    return spec


_P = {"loc": 1, "scale": 1, "affine": 2}


def _maf_sibling(spec, r):
    """Another autoregressive layer configuration with the SAME network sizes (inputs, width,
    depth, outputs) but a different (dim, cond_dim, parameters-per-dim) split, if one exists."""
    if spec.get("flow") != "maf" or spec.get("transformer") not in _P:
        return None
    d, c, tr = spec["dim"], spec.get("cond_dim") or 0, spec["transformer"]
    cands = []
    for d2 in (1, 2, 3, 4):
        for c2 in (0, 1, 2):
            for tr2, p2 in _P.items():
                if d2 + c2 == d + c and d2 * p2 == d * _P[tr] and (d2, c2) != (d, c):
                    cands.append((d2, c2, tr2))
    if not cands:
        return None
    d2, c2, tr2 = r.choice(sorted(cands))
    sib = dict(spec)
    sib.update({"dim": d2, "cond_dim": c2 or None, "transformer": tr2, "seed": r.randrange(2**31)})
    return sib


def _bnaf_sibling(spec, r):
    """Another block autoregressive network whose weight matrices have the SAME shapes but a different (dim, block size)
    split (e.g. dim 2 x block 2 and dim 4 x block 1 are both 4x4), if one exists: built in the same process first."""
    if spec.get("kind") != "bnaf":
        return None
    d, b, depth = spec["dim"], spec.get("block_dim", 2), spec.get("depth", 1)
    hidden = d * b if depth > 0 else d
    cands = []
    for d2 in (1, 2, 3, 4, 6):
        for b2 in (1, 2, 3, 4, 6):
            for depth2 in (0, 1, 2):
                h2 = d2 * b2 if depth2 > 0 else d2
                if d2 != d and (h2 == hidden or d2 == hidden or h2 == d):
                    cands.append((d2, b2, depth2))
    if not cands:
        return None
    d2, b2, depth2 = r.choice(sorted(cands))
    sib = dict(spec)
    sib.update({"dim": d2, "block_dim": b2, "depth": depth2, "cond_dim": None, "mode": "single", "layers": 1, "seed": r.randrange(2**31)})
    return sib


MAX_VALS = [0.5, 1.0, 2.0, 3.0, 5.0, 8.0, 8.0, 12.0, 20.0]


def _vary_max_val(items, r, p=0.5):
    """The templates below fix a leaky-tanh's switch point; it is a free positive knob of the API
    (at >= 8 float32 tanh saturates to exactly 1), so half of the draws replace it."""
    out = []
    for it in items:
        it = list(it)
        if it[0] in ("LeakyTanh", "InvLeakyTanh") and r.random() < p:
            it[1] = r.choice(MAX_VALS)
        out.append(it)
    return out


def sibling_config(spec, r):
    """The same model with a different PYTHON-valued configuration (same array shapes): spline
    interval / min_derivative, leaky-tanh switch point, planar activation, triangle side. Used as
    process history: built and evaluated in the same process before the model under test."""
    s = copy.deepcopy(spec)
    changed = False
    if "interval" in s or s.get("transformer") == "spline" or s["kind"] in ("vspline", "scan_vspline"):
        cur = s.get("interval", [-4.0, 4.0])
        opts = [iv for iv in ([-4.0, 4.0], [-1.0, 1.0], [-2.0, 2.0], [0.5, 2.0], [-3.0, -0.5], [-8.0, 8.0]) if iv != list(cur)]
        s["interval"] = r.choice(opts)
        changed = True
    if s["kind"] == "scan_vspline":
        s["min_derivative"] = 1e-2 if s.get("min_derivative", 1e-3) == 1e-3 else 1e-3
        changed = True
    for part in ("items", "inner", "first", "last"):
        if part in s:
            new = []
            for it in s[part]:
                it = list(it)
                if it[0] in ("LeakyTanh", "InvLeakyTanh"):
                    it[1] = r.choice([v for v in MAX_VALS if v != it[1]])
                    changed = True
                if it[0] in ("VSpline", "InvVSpline"):
                    it[2] = r.choice([iv for iv in ([-1.0, 1.0], [-2.0, 2.0], [0.5, 2.0], [-4.0, 4.0]) if iv != list(it[2])])
                    changed = True
                new.append(it)
            s[part] = new
    if s["kind"] == "planar" or s.get("flow") == "planar":
        s["negative_slope"] = 0.3 if s.get("negative_slope") in (None, 0.1, 0.5) and s.get("negative_slope") != 0.3 else 0.1
        changed = True
    if s["kind"] == "triaffine":
        s["lower"] = not s.get("lower", True)
        changed = True
    if s["kind"] == "tri_spline":
        s["tanh_max_val"] = r.choice([v for v in (1.0, 2.0, 3.0, 8.0) if v != s.get("tanh_max_val", 3.0)])
        changed = True
    if s["kind"] == "bnaf" and s.get("activation") in (None, "leaky1", "leaky8"):
        s["activation"] = r.choice([a for a in (None, "leaky1", "leaky8") if a != s.get("activation")])
        changed = True
    return s if changed else None


def _wn_spec(r, kind, prop):
    """Weight-normalised families built eagerly (zoo kinds ``bnaf`` / ``tri_spline``)."""
    dim = r.choice([1, 2, 2, 3, 3])
    mode = r.choice(["single", "single", "chain", "scan", "scan"])
    spec = {"kind": kind, "dim": dim, "cond_dim": r.choice([None, None, 2]), "mode": mode,
            "layers": 1 if mode == "single" else r.choice([1, 2, 2]), "invert": r.random() < 0.6}
    if kind == "bnaf":
        spec["depth"] = r.choice([0, 1, 1, 2])
        spec["block_dim"] = r.choice([1, 2, 3])
        # a bounded activation (the paper's tanh) has no inverse on all of R: only where nothing calls the
        # numerical inverter (training and Jacobian checks use the forward direction of an inverted layer)
        acts = [None, None, "leaky1", "leaky8", "callable"] + (["tanh"] if prop in ("C09", "C11", "C18") else [])
        spec["activation"] = r.choice(acts)
        if spec["cond_dim"] or spec["activation"] == "tanh" or prop == "C18":
            spec["invert"] = True  # log_prob of the non-inverted network needs the bisection inverter (not reverse-differentiable)
    else:
        spec["knots"] = r.choice([2, 3, 4])
        spec["tanh_max_val"] = r.choice([1.0, 3.0, 3.0, 8.0])
    return spec


def _direct_spec(r, kinds, prop=None):
    kind = r.choice(list(kinds))
    if kind in ("bnaf", "tri_spline"):
        return _wn_spec(r, kind, prop)
    dim = r.choice([1, 2, 2, 3])
    spec = {"kind": kind, "dim": dim}
    if kind == "triaffine":
        spec["lower"] = r.random() < 0.5
        spec["dim"] = r.choice([2, 3])
    if kind in ("vspline", "scan_vspline"):
        spec["knots"] = r.choice([2, 3, 4, 6])
        spec["interval"] = r.choice([[-4.0, 4.0], [-1.0, 3.0], [0.5, 2.0], [-3.0, -0.5], [-6.0, 6.0]])
        spec["min_derivative"] = r.choice([1e-3, 1e-2])
        spec["softmax_adjust"] = r.choice([1e-3, 1e-2, 1.0])
        spec["invert"] = r.random() < 0.5
        if kind == "scan_vspline":
            spec["layers"] = r.choice([1, 2])
            spec["dim"] = r.choice([1, 2])
            # the spline sits behind a leaky tanh (image of the bulk: (-1, 1))
            spec["interval"] = r.choice([[-1.0, 1.0], [-1.0, 1.0], [-2.0, 2.0], [-0.5, 0.5], [-1.5, 1.0]])
    if kind == "planar":
        spec["cond_dim"] = r.choice([None, None, 2])
        spec["negative_slope"] = r.choice([None, 0.1, 0.5])
        spec["invert"] = True
        spec["width"], spec["depth"] = r.choice([2, 3]), r.choice([0, 1])
        spec["dim"] = r.choice([1, 2, 3])
    if kind == "chain":
        # chains whose first-evaluated layer compares the data against a boundary get extra weight
        boundary = [c for c in CHAINS if c[0][0] in ("LeakyTanh", "InvLeakyTanh", "Tanh", "VSpline", "InvVSpline") or len(c) == 3]
        spec["items"] = _vary_max_val(r.choice(CHAINS + boundary + boundary), r)
    if kind == "nested_chain":
        spec["first"] = r.choice([[["Affine"]], [["Scale"]], []])
        spec["inner"] = r.choice([[["Affine"], ["Tanh"]], [["TriAffine"], ["Affine"]], [["LeakyTanh", 3.0], ["Scale"]], [["Affine"], ["Flip"], ["Affine"]]])
        spec["last"] = r.choice([[["Affine"]], [["TriAffine"]], []])
        if not spec["first"] and not spec["last"]:
            spec["last"] = [["Affine"]]
        spec["dim"] = r.choice([2, 3])
    if kind == "container":
        spec["variant"] = r.choice(["concat", "stack", "partial", "reshape", "embed", "additive"])
        spec["dim"] = r.choice([2, 3])
        if spec["variant"] in ("embed", "additive"):
            spec["cond_dim"] = {"embed": 3, "additive": 2}[spec["variant"]]
    if kind in ("affine", "scale", "triaffine", "vspline", "chain") and r.random() < 0.3:
        spec["base"] = r.choice(["normal", "studentt"])
    return spec


CHAINS = [
    [["LeakyTanh", 3.0], ["Affine"]],
    [["Affine"], ["LeakyTanh", 3.0]],
    [["Affine"], ["InvLeakyTanh", 3.0]],
    [["InvLeakyTanh", 2.0], ["Affine"]],
    [["Affine"], ["Tanh"]],
    [["Affine"], ["Exp"]],
    [["Affine"], ["SoftPlus"]],
    [["InvSoftPlus"], ["Affine"]],
    [["TriAffine"], ["Flip"], ["Affine"]],
    [["Scale"], ["VSpline", 3, [-2.0, 2.0]], ["Affine"]],
    [["LeakyTanh", 3.0], ["VSpline", 3, [-1.0, 1.0]], ["InvLeakyTanh", 3.0], ["TriAffine"]],
    [["Affine"], ["InvVSpline", 3, [0.5, 2.0]]],
    [["Affine"], ["SoftPlus"], ["Affine"]],
    [["Affine"], ["Exp"], ["Affine"]],
    [["Affine"], ["Tanh"], ["Affine"]],
    [["Affine"], ["LeakyTanh", 3.0], ["Affine"]],
    [["Affine"], ["InvSoftPlus"], ["Affine"]],
    [["Affine"], ["InvExp"], ["Affine"]],
    [["LeakyTanh", 3.0], ["AffineId"]],
    [["LeakyTanh", 1.0], ["AffineId"], ["Flip"]],
    [["InvLeakyTanh", 3.0], ["AffineId"]],
    [["Tanh"], ["AffineId"]],
    [["AffineId"], ["InvTanh"]],
    [["VSpline", 4, [-1.0, 1.0]], ["AffineId"]],
    [["InvVSpline", 4, [-2.0, 1.0]], ["AffineId"]],
]


NAMED_WEIGHTED = NAMED + ["VmapMixture", "VmapMixture", "StudentT", "MultivariateNormal", "Exponential", "Uniform", "LogNormal"]


LT_CHAINS = [
    [["LeakyTanh", 3.0], ["AffineId"]],
    [["LeakyTanh", 1.0], ["AffineId"], ["Flip"]],
    [["LeakyTanh", 2.0], ["AffineId"]],
    [["InvLeakyTanh", 3.0], ["AffineId"]],
    [["Tanh"], ["AffineId"]],
    [["AffineId"], ["InvTanh"]],
    [["Affine"], ["LeakyTanh", 3.0], ["AffineId"]],
]


def _named_spec(r, lo, hi, names=NAMED_WEIGHTED):
    name = r.choice(list(names))
    dim = r.choice([0, 1, 2, 3]) if name not in ("MultivariateNormal",) else r.choice([1, 2, 3])
    if name in ("VmapMixture", "MixShiftedLogNormal"):
        dim = r.choice([0, 2])
    return {"kind": "named", "name": name, "dim": dim, "lo": lo, "hi": hi}


def _fill_values(spec, r):
    """Per-run values: seeds and constructor arguments."""
    spec = copy.deepcopy(spec)
    spec["seed"] = r.randrange(2**31)
    if spec["kind"] == "named":
        spec["args"] = zoo.named_args(spec["name"], spec["dim"], spec["seed"], spec.pop("lo"), spec.pop("hi"))
    return spec


def _loop_for(spec, r, prefer_vi=0.4):
    cond = spec.get("cond_dim")
    tanh_planar = (spec["kind"] in ("planar",) or spec.get("flow") == "planar") and spec.get("negative_slope") is None
    can_vi = not cond
    if spec["kind"] == "bnaf":
        # the cheap direction only: the other one runs the bisection inverter (a while_loop: no reverse mode)
        if spec.get("invert", True):
            return "data", ("contrastive" if cond and r.random() < 0.25 else "mle")
        return "vi", "elbo"
    if tanh_planar and spec.get("invert", True):
        can_vi = False  # sampling needs the (unimplemented) inverse of tanh-planar
    can_data = not (tanh_planar and not spec.get("invert", True))
    if spec["kind"] == "named" and spec["name"] in ("Uniform",):
        prefer_vi = 0.2
    if not can_vi and not can_data:
        spec["invert"] = True  # tanh-planar has no inverse: only log_prob (data loop) of the inverted flow exists
        can_data = True
    if can_vi and (not can_data or r.random() < prefer_vi):
        return "vi", r.choice(["elbo", "elbo", "elbo_stl"]) if _has_inverse(spec) else "elbo"
    loss = "mle"
    if cond and r.random() < 0.25:
        loss = "contrastive"
    return "data", loss


def _has_inverse(spec):
    tanh_planar = (spec["kind"] == "planar" or spec.get("flow") == "planar") and spec.get("negative_slope") is None
    return not tanh_planar


def _shape_knobs(r, loop):
    if loop == "vi":
        return {}
    n = r.choice([12, 16, 20, 24])
    return {"data": {"n": n}, "batch_size": r.choice([4, 6, 8, n]), "val_prop": r.choice([0.25, 0.34, 0.5])}


def _run_knobs(r, loop, tier="quick"):
    k = {"key_seed": r.randrange(2**31), "return_best": r.random() < 0.5, "show_progress": r.random() < 0.1,
         "key_style": r.choice(["legacy", "legacy", "typed"])}
    deep = tier == "thorough"
    if loop == "vi":
        k["steps"] = r.choice([0, 1, 2, 3, 4, 5, 6, 8] + ([10, 12, 16, 24] if deep else []))
    else:
        k["max_epochs"] = r.choice([0, 1, 2, 2, 3, 3] + ([4, 5, 6] if deep else []))
        k["max_patience"] = r.choice([0, 1, 2, 5])
    if deep:
        k["max_states"] = 10
    return k


def _faults(r, n_steps_hint, box, kinds, p_none=0.35):
    if r.random() < p_none:
        return []
    out = []
    for _ in range(r.choice([1, 1, 2, 3])):
        kind = r.choice(kinds)
        f = {"step": r.randrange(0, max(1, n_steps_hint)), "kind": kind, "seed": r.randrange(2**30)}
        if kind == "opt_teleport":
            f["scale"] = float(r.choice([0.5, 3.0, box, box]))
        out.append(f)
    # one fault per step at most
    seen, uniq = set(), []
    for f in out:
        if f["step"] not in seen:
            uniq.append(f)
            seen.add(f["step"])
    return uniq


def _planar_like(spec):
    return spec["kind"] == "planar" or spec.get("flow") == "planar"


def _box(spec, prop=None):
    # bnaf: the Jacobian diagonal is a PRODUCT over layers of softplus-positive weights, row-norm ratios and
    # activation slopes; beyond |raw| ~ 8 that product leaves float32 range (C11's constraints are per matrix: full box)
    if spec["kind"] == "bnaf" and prop != "C11":
        return 5.0
    return 5.0 if _planar_like(spec) else 50.0


# ------------------------------------------------------------------ per-property worlds
WN_EVERY = 5  # every 5th bucket holds a weight-normalised family (bnaf / tri_spline); the others are the
              # buckets of the earlier generator, in their old order (old bucket j sits at j + j // 4)


NAMED_SWEEP_EVERY = 8  # C18 only: among the non-weight-normalised buckets every 8th is a named-family sweep bucket
NAMED_SWEEP = ["Logistic", "MixShiftedLogNormal", "VmapMixture", "StudentT", "Uniform", "Gumbel", "Exponential", "LogNormal", "Cauchy", "Laplace",
               "MultivariateNormal", "Normal"]
# "lo" / "hi" resolve to the family's own support boundaries where it has any (Uniform minval / maxval, 0 for Exponential and LogNormal)
SWEEP_SYMBOLS = ["big", "-big", "huge", "-huge", "0", "tiny", "out_lo", "out_hi", "1", "-1", "lo", "hi"]


def _route(prop, idx):
    """(kind, bucket index within its stream, run index within its stream); kind in {"wn", "sweep", "old"}."""
    K = K_BUCKET[prop]
    b, k = divmod(idx, K)
    if b % WN_EVERY == WN_EVERY - 1:
        wb = b // WN_EVERY
        return "wn", wb, wb * K + k
    ob = b - b // WN_EVERY
    if prop == "C18":
        if ob % NAMED_SWEEP_EVERY == NAMED_SWEEP_EVERY - 1:
            sb = ob // NAMED_SWEEP_EVERY
            return "sweep", sb, sb * K + k
        ob = ob - ob // NAMED_SWEEP_EVERY
    return "old", ob, ob * K + k


def _c18_sweep_world(tier, seed, idx, sb, ridx):
    """Named-family sweep (C18): bucket sb trains TWO families (2 sb and 2 sb + 1, mod 12) by maximum likelihood, six runs
    each; a run carries one fault row whose chosen coordinate is one value of a fixed list of twelve large / boundary /
    out-of-support values (one half of the list per pass over the twelve families, the other half on the next pass)."""
    K = K_BUCKET["C18"]
    k0 = ridx % K
    r = rng_for(seed, "C18", tier, "sweeprun", ridx)
    fam = (2 * sb + (k0 % 2)) % len(NAMED_SWEEP)
    rb = rng_for(seed, "C18", tier, "sweepbucket", sb, fam)
    name = NAMED_SWEEP[fam]
    k = (k0 // 2 + 6 * ((sb // 6) % 2)) % K
    dim = rb.choice([0, 2]) if name in ("VmapMixture", "MixShiftedLogNormal") else (rb.choice([1, 2, 3]) if name == "MultivariateNormal" else rb.choice([0, 1, 2]))
    base = {"kind": "named", "name": name, "dim": dim, "lo": 1e-2, "hi": 1e2}
    w = {"engine": "B", "prop": "C18", "model": _fill_values(base, r), "freeze": [], "loop": "data", "loss": "mle", "opt": rb.choice(["sgd", "adam"]),
         "lr": 1e-3, "idx": idx, "sweep": [name, SWEEP_SYMBOLS[k]], "data": {"n": 12, "seed": r.randrange(2**31)}, "batch_size": 4, "val_prop": 0.25,
         "key_seed": r.randrange(2**31), "return_best": False, "show_progress": False, "key_style": "legacy", "max_epochs": 1, "max_patience": 5, "faults": []}
    d = max(dim, 1)
    rows = [{"pos": r.randrange(12), "coords": [r.randrange(d)], "symbols": [SWEEP_SYMBOLS[k]], "knot_index": 0}]
    if r.random() < 0.5:
        rows.append({"pos": r.randrange(12), "coords": list(range(d)), "symbols": [SWEEP_SYMBOLS[(k + 5) % K]] * d, "knot_index": 0})
    w["data"]["fault_rows"] = rows
    if name not in ("MixShiftedLogNormal", "LogNormal", "Exponential", "Uniform") and r.random() < 0.3:
        w["data"]["source"] = "normal"  # (support-limited families keep model samples: the bulk stays inside the support)
        w["data"]["scale"] = r.choice([0.5, 1.0, 3.0])
    return w


def _bucket(prop, tier, seed, idx):
    kind_, bidx, _ = _route(prop, idx)
    wn = kind_ == "wn"
    r = rng_for(seed, prop, tier, "wnbucket" if wn else "bucket", bidx)
    if wn:
        kinds = {"C09": ["bnaf", "bnaf", "coupling_layer"], "C11": ["bnaf", "bnaf", "tri_spline", "tri_spline"], "C12": ["bnaf", "bnaf", "tri_spline"],
                 "C18": ["bnaf", "bnaf", "tri_spline"]}[prop]
        kind_ = r.choice(kinds)
        if kind_ == "coupling_layer":
            # a coupling layer through its own constructor: every split point, not only dim // 2
            d_ = r.choice([2, 3, 3, 4, 4, 5])
            u_ = r.choice([1, d_ - 1, d_ - 1, max(1, d_ // 2), r.randrange(1, d_)])  # both extremes of the split, not only the factories' dim // 2
            spec = {"kind": "coupling_layer", "dim": d_, "untransformed_dim": u_, "cond_dim": r.choice([None, None, 2]),
                    "transformer": r.choice(["affine", "affine", "spline", "loc"]), "width": r.choice([1, 2, 3, 4]), "depth": r.choice([0, 1, 2]),
                    "invert": r.random() < 0.6}
        else:
            spec = _wn_spec(r, kind_, prop)
        if prop == "C09" and kind_ == "bnaf":
            spec["dim"] = r.choice([1, 2, 3, 3, 4])
        freeze = []
        if prop == "C12":
            freeze = [{"node": r.randrange(10**6), "mode": r.choice(["NT", "fn"])} for _ in range(r.choice([0, 1, 1, 2, 3]))]
    elif prop == "C12":
        u = r.random()
        if u < 0.45:
            spec = _flow_spec(r, transformers=("affine", "spline", "affine_frozen_loc", "affine_frozen_scale_node", "spline_frozen_derivs"))
        elif u < 0.8:
            spec = _direct_spec(r, ["affine", "scale", "triaffine", "vspline", "planar", "chain", "scan_vspline", "container", "container", "nested_chain", "nested_chain", "nested_chain"])
        else:
            spec = _named_spec(r, 1e-2, 1e2)
        freeze = [{"node": r.randrange(10**6), "mode": r.choice(["NT", "fn"])} for _ in range(r.choice([0, 1, 1, 2, 3]))]
        if r.random() < 0.07:
            freeze = [{"node": 0, "mode": "fn"}, {"node": 0, "mode": "fn"}, {"node": 0, "mode": "fn"}, {"node": 0, "mode": "fn"}]
    elif prop == "C11":
        u = r.random()
        if u < 0.3:
            spec = _flow_spec(r)
        elif u < 0.6:
            spec = _direct_spec(r, ["affine", "scale", "triaffine", "vspline", "planar", "chain", "scan_vspline", "container"])
        else:
            wide = r.random() < 0.5
            spec = _named_spec(r, 1e-6 if wide else 1e-2, 1e6 if wide else 1e2)
        freeze = []
    elif prop == "C09":
        spec = _flow_spec(r, flows=("maf", "maf", "coupling"), transformers=("affine", "affine", "spline", "spline", "loc", "scale"))
        if spec["flow"] == "maf" and r.random() < 0.5:
            spec["dim"] = r.choice([1, 2, 3, 4])
            spec["cond_dim"] = r.choice([None, None, 1, 2])
        freeze = []
    else:  # C18
        u = r.random()
        if u < 0.4:
            spec = _flow_spec(r, flows=("maf", "coupling", "planar"), transformers=("spline", "spline", "affine"))
            if _planar_like(spec):
                spec["invert"] = True
        elif u < 0.55:
            # a leaky tanh (or tanh) met by the data right before an exactly-identity parameterised layer:
            # the only arrangement in which a data coordinate can sit exactly on its +-1 / switch-point boundaries
            spec = {"kind": "chain", "dim": r.choice([1, 2, 2]), "items": _vary_max_val(r.choice(LT_CHAINS), r, p=0.7)}
        elif u < 0.9:
            spec = _direct_spec(r, ["vspline", "vspline", "vspline", "chain", "chain", "planar", "affine", "scan_vspline"])
        else:
            spec = _named_spec(r, 1e-2, 1e2, names=["Normal", "StudentT", "Cauchy", "Laplace", "Logistic", "Gumbel", "MultivariateNormal", "VmapMixture",
                                                    "MixShiftedLogNormal", "MixShiftedLogNormal", "LogNormal", "Exponential"])
        freeze = []
    if prop == "C18":
        loop, loss = "data", "mle"
    else:
        loop, loss = _loop_for(spec, r)
    b = {"engine": "B", "prop": prop, "model": spec, "freeze": freeze, "loop": loop, "loss": loss}
    if prop == "C12":
        b["freeze_keep_some"] = r.random() < 0.65
        if freeze and r.random() < 0.3:
            # process history: the same model, differently frozen (mostly: not frozen), trained first
            alt = [] if r.random() < 0.6 else [{"node": r.randrange(10**6), "mode": r.choice(["NT", "fn"])}]
            b["prelude_train"] = {"freeze": alt, "seed": r.randrange(2**31)}
        if freeze and r.random() < 0.15:
            b["post_ops"] = [r.choice(["frozen_leaf_float64", "frozen_leaf_bf16"])]
        if spec["kind"] in ("nested_chain", "chain") and r.random() < 0.85:
            b["post_ops"] = [r.choice(["merge_chains", "merge_chains", "merge_chains", "merge_transforms"])]
            if b["post_ops"] == ["merge_transforms"]:
                spec["base"] = "normal"  # only a nested Transformed gives merge_transforms something to merge
            if spec["kind"] == "nested_chain" and r.random() < 0.8:
                # aim the first freeze at the inner chain (bijections[len(first)]), mostly as one wrapped node
                b["freeze_path_hint"] = len(spec["first"])
                if not freeze:
                    freeze.append({"node": r.randrange(10**6), "mode": "NT"})
                if r.random() < 0.85:
                    freeze[0]["mode"] = "NT"
    if prop == "C18":
        b["opt"], b["lr"] = r.choice(["sgd", "adam"]), r.choice([1e-3, 1e-2])
    else:
        b["opt"], b["lr"] = r.choice(OPTS), r.choice([1e-3, 1e-2, 1e-1])
    b.update(_shape_knobs(r, loop))
    if loss == "contrastive":
        b["batch_size"] = max(b["batch_size"], 4)
        b["data"]["n"] = max(b["data"]["n"], 16)
        b["val_prop"] = 0.5 if b["data"]["n"] * 0.25 < 4 else b["val_prop"]
        if b["data"]["n"] * b["val_prop"] < 4:
            b["val_prop"] = 0.5
    return b


C12_STRUCTS = [
 {"kind":"named","name":"Normal","dim":2,"lo":1e-2,"hi":1e2},
 {"kind":"named","name":"StudentT","dim":1,"lo":1e-2,"hi":1e2},
 {"kind":"named","name":"VmapMixture","dim":2,"lo":1e-2,"hi":1e2},
 {"kind":"named","name":"MultivariateNormal","dim":2,"lo":1e-2,"hi":1e2},
 {"kind":"named","name":"LogNormal","dim":2,"lo":1e-2,"hi":1e2},
 {"kind":"named","name":"Uniform","dim":2,"lo":1e-2,"hi":1e2},
 {"kind":"affine","dim":2,"base":"studentt"},
 {"kind":"triaffine","dim":2,"lower":True},
 {"kind":"vspline","dim":2,"knots":2,"interval":[-4.0,4.0],"invert":False},
 {"kind":"planar","dim":2,"cond_dim":2,"negative_slope":0.1,"invert":True,"width":2,"depth":1},
 {"kind":"chain","dim":2,"items":[["Affine"],["Tanh"],["Affine"]]},
 {"kind":"chain","dim":2,"items":[["TriAffine"],["Flip"],["Affine"]],"base":"normal"},
 {"kind":"nested_chain","dim":2,"first":[["Affine"]],"inner":[["TriAffine"],["Affine"]],"last":[["Affine"]]},
 {"kind":"container","dim":2,"variant":"concat"},
 {"kind":"container","dim":2,"variant":"stack"},
 {"kind":"container","dim":2,"variant":"partial"},
 {"kind":"container","dim":2,"variant":"embed","cond_dim":3},
 {"kind":"container","dim":2,"variant":"additive","cond_dim":2},
 {"kind":"scan_vspline","dim":2,"knots":2,"interval":[-1.0,1.0],"layers":2,"invert":True},
 {"kind":"flow","flow":"maf","dim":2,"cond_dim":None,"layers":2,"invert":True,"transformer":"affine","width":3,"depth":1},
 {"kind":"flow","flow":"maf","dim":2,"cond_dim":2,"layers":1,"invert":True,"transformer":"spline","knots":2,"interval":[-4.0,4.0],"width":3,"depth":1},
 {"kind":"flow","flow":"maf","dim":2,"cond_dim":None,"layers":1,"invert":False,"transformer":"affine_frozen_scale_node","width":3,"depth":0},
 {"kind":"flow","flow":"coupling","dim":3,"cond_dim":None,"layers":2,"invert":True,"transformer":"affine","width":3,"depth":1},
 {"kind":"flow","flow":"coupling","dim":2,"cond_dim":2,"layers":1,"invert":False,"transformer":"spline_frozen_derivs","width":3,"depth":1},
 {"kind":"flow","flow":"planar","dim":2,"cond_dim":None,"layers":2,"invert":True,"negative_slope":0.1,"width":2,"depth":0},
 {"kind":"bnaf","dim":2,"cond_dim":None,"mode":"single","layers":1,"invert":True,"depth":1,"block_dim":2,"activation":None},
 {"kind":"bnaf","dim":2,"cond_dim":2,"mode":"scan","layers":2,"invert":True,"depth":1,"block_dim":1,"activation":"leaky1"},
 {"kind":"bnaf","dim":2,"cond_dim":None,"mode":"chain","layers":2,"invert":False,"depth":0,"block_dim":1,"activation":None},
 {"kind":"tri_spline","dim":2,"cond_dim":None,"mode":"single","layers":1,"invert":True,"knots":2,"tanh_max_val":3.0},
 {"kind":"tri_spline","dim":2,"cond_dim":2,"mode":"scan","layers":2,"invert":False,"knots":2,"tanh_max_val":3.0},
]
# number of freezable tree positions (engine_b.candidate_nodes) of each structure above, measured on the pinned tree; a
# changed count only means a few positions are visited twice (the plan index wraps) or not at all
C12_NODE_COUNTS = [4, 7, 8, 7, 6, 4, 12, 7, 11, 10, 10, 18, 23, 9, 12, 5, 11, 9, 22, 15, 15, 10, 13, 12, 6, 30, 35, 40, 24, 27]
_C12_GRID = []


def c12_freeze_grid():
    """C12 thorough, enumerated block: EVERY freezable tree position of 30 representative structures (every family of
    the zoo), frozen once as NonTrainable(subtree) and once with non_trainable(subtree): (structure, position, mode)."""
    if not _C12_GRID:
        for si, n in enumerate(C12_NODE_COUNTS):
            for j in range(n):
                for mode in ("NT", "fn"):
                    _C12_GRID.append((si, j, mode))
    return _C12_GRID


def _c12_enumerated_world(seed, idx):
    si, j, mode = c12_freeze_grid()[idx]
    base = copy.deepcopy(C12_STRUCTS[si])
    r = rng_for(seed, "C12", "thorough", "enum", idx)
    rs = rng_for(seed, "C12", "thorough", "enum-struct", si)
    loop, loss = _loop_for(base, rs)
    w = {"engine": "B", "prop": "C12", "model": _fill_values(base, r), "freeze": [{"node": j, "mode": mode}], "freeze_keep_some": False,
         "loop": loop, "loss": loss, "opt": "adamw", "lr": 1e-2, "idx": idx, "enumerated": [si, j, mode]}
    if loop == "vi":
        w["steps"] = 3
    else:
        w.update({"data": {"n": 16, "seed": r.randrange(2**31)}, "batch_size": 4, "val_prop": 0.5 if loss == "contrastive" else 0.25, "max_epochs": 1, "max_patience": 5})
    w.update({"key_seed": r.randrange(2**31), "return_best": r.random() < 0.5, "show_progress": False, "key_style": "legacy", "max_states": 3})
    w["faults"] = [{"step": r.choice([1, 2]), "kind": "opt_teleport", "seed": r.randrange(2**30), "scale": float(r.choice([0.5, 3.0]))}]
    return w


_C18_TEMPLATES = []


def c18_templates():
    """Model templates of C18's enumerated block: every chain template, direct splines (five intervals, both
    orientations), the flow factories that can run here (three spline intervals, both orientations), planar, the scanned
    spline, block autoregressive networks (four activations), the triangular-spline layer (three switch points), and
    the named families."""
    if _C18_TEMPLATES:
        return _C18_TEMPLATES
    T = _C18_TEMPLATES
    seen = []
    for items in CHAINS + LT_CHAINS:
        if items not in seen:
            seen.append(items)
            T.append({"kind": "chain", "dim": 2, "items": copy.deepcopy(items)})
    for items in LT_CHAINS[:4]:
        for mv in (1.0, 8.0, 12.0):
            T.append({"kind": "chain", "dim": 1, "items": [[it[0], mv] if it[0] in ("LeakyTanh", "InvLeakyTanh") else list(it) for it in items]})
    for iv in ([-4.0, 4.0], [-1.0, 3.0], [0.5, 2.0], [-3.0, -0.5], [-6.0, 6.0]):
        for inv in (False, True):
            T.append({"kind": "vspline", "dim": 2, "knots": 3, "interval": iv, "min_derivative": 1e-3, "softmax_adjust": 1e-2, "invert": inv})
    for flow in ("maf", "coupling"):
        for iv in ([-4.0, 4.0], [0.5, 2.0], [-3.0, -0.5]):
            for inv in (False, True):
                T.append({"kind": "flow", "flow": flow, "dim": 2, "cond_dim": None, "layers": 2, "invert": inv, "transformer": "spline", "width": 3, "depth": 1,
                          "knots": 3, "interval": iv, "min_derivative": 1e-3, "softmax_adjust": 1e-2})
        T.append({"kind": "flow", "flow": flow, "dim": 2, "cond_dim": 2, "layers": 2, "invert": True, "transformer": "affine", "width": 3, "depth": 1})
    for ns in (None, 0.1):
        T.append({"kind": "planar", "dim": 2, "cond_dim": None, "negative_slope": ns, "invert": True, "width": 2, "depth": 0})
        T.append({"kind": "flow", "flow": "planar", "dim": 2, "cond_dim": None, "layers": 2, "invert": True, "negative_slope": ns, "width": 2, "depth": 0})
    for iv in ([-1.0, 1.0], [-0.5, 0.5]):
        T.append({"kind": "scan_vspline", "dim": 2, "knots": 3, "interval": iv, "min_derivative": 1e-3, "softmax_adjust": 1e-2, "layers": 2, "invert": True})
    for act in (None, "leaky1", "leaky8", "tanh", "callable"):
        T.append({"kind": "bnaf", "dim": 2, "cond_dim": None, "mode": "single", "layers": 1, "invert": True, "depth": 1, "block_dim": 2, "activation": act})
    T.append({"kind": "bnaf", "dim": 2, "cond_dim": None, "mode": "scan", "layers": 2, "invert": True, "depth": 2, "block_dim": 2, "activation": None})
    for mv in (1.0, 3.0, 8.0):
        T.append({"kind": "tri_spline", "dim": 2, "cond_dim": None, "mode": "single", "layers": 1, "invert": True, "knots": 3, "tanh_max_val": mv})
    T.append({"kind": "tri_spline", "dim": 2, "cond_dim": None, "mode": "scan", "layers": 2, "invert": True, "knots": 3, "tanh_max_val": 3.0})
    for name in ("Normal", "StudentT", "Cauchy", "Laplace", "Logistic", "Gumbel", "MultivariateNormal", "VmapMixture", "MixShiftedLogNormal", "LogNormal", "Exponential", "Uniform"):
        T.append({"kind": "named", "name": name, "dim": 2, "lo": 1e-2, "hi": 1e2})
    return T


def _c18_symbol_list():
    syms = []
    for s_ in SYMBOLS:
        if s_ not in syms:
            syms.append(s_)
    # pad to whole buckets with the exact-boundary symbols (other knot indices / other coordinate)
    pad = ["knot", "yknot", "lo", "hi", "knot", "yknot", "1", "-1", "max_val", "tanh_max_val", "knot", "yknot"]
    K = K_BUCKET["C18"]
    while len(syms) % K:
        syms.append(pad[len(syms) % len(pad)])
    return syms


def c18_enum_size():
    return len(c18_templates()) * len(_c18_symbol_list())


def _c18_enumerated_world(seed, idx):
    """World idx of C18's enumerated block: template idx // S, boundary symbol idx % S — one fault row whose chosen
    coordinate sits on that value, parameters at initialisation (even idx) or perturbed (odd idx)."""
    syms = _c18_symbol_list()
    t, k = divmod(idx, len(syms))
    base = copy.deepcopy(c18_templates()[t])
    r = rng_for(seed, "C18", "thorough", "enum", idx)
    rt = rng_for(seed, "C18", "thorough", "enum-template", t)
    w = {"engine": "B", "prop": "C18", "model": _fill_values(base, r), "freeze": [], "loop": "data", "loss": "mle", "opt": rt.choice(["sgd", "adam"]),
         "lr": 1e-3, "idx": idx, "enumerated": [t, syms[k]], "data": {"n": 12, "seed": r.randrange(2**31)}, "batch_size": 4, "val_prop": 0.25,
         "key_seed": r.randrange(2**31), "return_best": False, "show_progress": False, "key_style": "legacy", "max_epochs": 1, "max_patience": 5, "faults": []}
    dim = w["model"].get("dim", 1) or 1
    if idx % 2 and base["kind"] != "named":
        w["init_perturb"] = {"seed": r.randrange(2**31), "scale": r.choice([0.5, 2.0, 5.0])}
        _widen_perturb(w, rng_for(seed, "C18", "thorough", "enum-wide-perturb", idx))
    rows = [{"pos": r.randrange(12), "coords": [r.randrange(dim)], "symbols": [syms[k]], "knot_index": r.randrange(8)}]
    if r.random() < 0.3:  # the same value on every coordinate of another row
        rows.append({"pos": r.randrange(12), "coords": list(range(dim)), "symbols": [syms[k]] * dim, "knot_index": r.randrange(8)})
    w["data"]["fault_rows"] = rows
    if base.get("name") in ("MixShiftedLogNormal", "LogNormal", "Exponential"):
        w["data"]["source"] = "normal"
        w["data"]["scale"] = 1.0
    return w


_C09_GRID = []


def c09_grid():
    """The configuration grid of C09's quantifier, one bucket per configuration (thorough tier, enumerated block):
    masked autoregressive (dim 1-4 x cond 0-2 x width 1-5 x depth 0-2 x parameters-per-dimension 1, 2, 3k-1),
    coupling (dim 2-4 x cond 0/2 x width 1/3/5 x depth 0-2 x 2 transformers) and block autoregressive networks
    (dim 1-4 x cond 0/2 x depth 0-2 x block size 1-3). One layer each: the structure clauses are per layer."""
    if _C09_GRID:
        return _C09_GRID
    k = 0
    for dim in (1, 2, 3, 4):
        for cond in (None, 1, 2):
            for width in (1, 2, 3, 4, 5):
                for depth in (0, 1, 2):
                    for tr in ("affine", "loc", "spline"):
                        m = {"kind": "flow", "flow": "maf", "dim": dim, "cond_dim": cond, "layers": 1, "invert": bool(k % 2), "transformer": tr,
                             "width": width, "depth": depth}
                        if tr == "spline":
                            m.update({"knots": 2, "interval": [-4.0, 4.0], "min_derivative": 1e-3, "softmax_adjust": 1e-2})
                        _C09_GRID.append(m)
                        k += 1
    for dim in (2, 3, 4):
        for cond in (None, 2):
            for width in (1, 3, 5):
                for depth in (0, 1, 2):
                    for tr in ("affine", "spline"):
                        m = {"kind": "flow", "flow": "coupling", "dim": dim, "cond_dim": cond, "layers": 1, "invert": bool(k % 2), "transformer": tr,
                             "width": width, "depth": depth}
                        if tr == "spline":
                            m.update({"knots": 2, "interval": [-4.0, 4.0], "min_derivative": 1e-3, "softmax_adjust": 1e-2})
                        _C09_GRID.append(m)
                        k += 1
    for dim in (2, 3, 4, 5):
        for u in range(1, dim):
            for cond in (None, 2):
                for tr in ("affine", "spline"):
                    _C09_GRID.append({"kind": "coupling_layer", "dim": dim, "untransformed_dim": u, "cond_dim": cond, "transformer": tr, "width": 3,
                                      "depth": 1, "invert": bool(k % 2), "knots": 2})
                    k += 1
    for dim in (1, 2, 3, 4):
        for cond in (None, 2):
            for depth in (0, 1, 2):
                for block in (1, 2, 3):
                    _C09_GRID.append({"kind": "bnaf", "dim": dim, "cond_dim": cond, "mode": "single", "layers": 1, "invert": True, "depth": depth,
                                      "block_dim": block, "activation": None})
    return _C09_GRID


def _c09_enumerated_world(seed, idx):
    """World idx of the enumerated block: configuration idx // K, K seeded runs each. Every run schedules an
    all-positive teleport (so the dependency-completeness clauses are evaluated in every configuration)."""
    K = K_BUCKET["C09"]
    spec = copy.deepcopy(c09_grid()[idx // K])
    r = rng_for(seed, "C09", "thorough", "enum", idx)
    rb = rng_for(seed, "C09", "thorough", "enum-bucket", idx // K)
    loop, loss = _loop_for(spec, rb)
    w = {"engine": "B", "prop": "C09", "model": _fill_values(spec, r), "freeze": [], "loop": loop, "loss": loss,
         "opt": rb.choice(["sgd", "adam", "adamw"]), "lr": rb.choice([1e-3, 1e-2]), "idx": idx, "enumerated": idx // K}
    n = 12
    w.update({"data": {"n": n, "seed": r.randrange(2**31)}, "batch_size": 4, "val_prop": 0.25})
    if loss == "contrastive":
        w.update({"data": {"n": 16, "seed": r.randrange(2**31)}, "batch_size": 4, "val_prop": 0.5})
    w.update({"key_seed": r.randrange(2**31), "return_best": r.random() < 0.5, "show_progress": False, "key_style": "legacy",
              "max_epochs": 2, "max_patience": 5, "max_states": 6})
    if loop == "vi":
        for k_ in ("data", "batch_size", "val_prop", "max_epochs", "max_patience"):
            w.pop(k_)
        w["steps"] = 4
    box = _box(spec, "C09")
    steps = [0, 1, 2, 3]
    r.shuffle(steps)
    w["faults"] = [{"step": steps[0], "kind": "opt_teleport_positive", "seed": r.randrange(2**30)},
                   {"step": steps[1], "kind": "opt_teleport", "seed": r.randrange(2**30), "scale": float(r.choice([0.5, 3.0, box]))}]
    if r.random() < 0.5:
        w["faults"].append({"step": steps[2], "kind": r.choice(["opt_teleport", "grad_huge", "opt_signflip"]), "seed": r.randrange(2**30), "scale": float(box)})
    w["prelude"] = []
    return w


def world_for(prop, tier, seed, idx):
    if prop == "C09" and tier == "thorough":
        n_enum = len(c09_grid()) * K_BUCKET["C09"]
        if idx < n_enum:
            return _c09_enumerated_world(seed, idx)
        w = _world_for_seeded(prop, tier, seed, idx - n_enum)
        w["idx"] = idx
        return w
    if prop == "C18" and tier == "thorough":
        n_enum = c18_enum_size()
        if idx < n_enum:
            return _c18_enumerated_world(seed, idx)
        w = _world_for_seeded(prop, tier, seed, idx - n_enum)
        w["idx"] = idx
        return w
    if prop == "C12" and tier == "thorough":
        n_enum = -(-len(c12_freeze_grid()) // K_BUCKET["C12"]) * K_BUCKET["C12"]  # whole buckets
        if idx < len(c12_freeze_grid()):
            return _c12_enumerated_world(seed, idx)
        if idx < n_enum:
            return _c12_enumerated_world(seed, idx % len(c12_freeze_grid()))
        w = _world_for_seeded(prop, tier, seed, idx - n_enum)
        w["idx"] = idx
        return w
    return _world_for_seeded(prop, tier, seed, idx)


def _world_for_seeded(prop, tier, seed, idx):
    kind_, sb_, ridx = _route(prop, idx)
    if kind_ == "sweep":
        return _c18_sweep_world(tier, seed, idx, sb_, ridx)
    wn = kind_ == "wn"
    b = _bucket(prop, tier, seed, idx)
    r = rng_for(seed, prop, tier, "wnrun" if wn else "run", ridx)
    w = copy.deepcopy(b)
    w["idx"] = idx
    w["model"] = _fill_values(b["model"], r)
    w.update(_run_knobs(r, b["loop"], tier))
    if not (b["loop"] == "data" and b["loss"] == "mle"):
        w["key_style"] = "legacy"  # flowjax samplers reshape raw uint32 key data: typed keys unsupported there
    if "data" in w:
        w["data"]["seed"] = r.randrange(2**31)
    box = _box(b["model"], prop)
    hint = w.get("steps", 6) if b["loop"] == "vi" else 3 * max(1, w.get("max_epochs", 2))
    if prop == "C12" and idx % K_BUCKET[prop] == K_BUCKET[prop] - 1 and b["loss"] != "contrastive":
        # the loops' own defaults (adam, MaximumLikelihoodLoss): nothing is observed per step,
        # only the end-state clauses apply
        w["use_defaults"] = True
        w["lr"] = 0.05
    if prop == "C12":
        w["faults"] = _faults(r, hint, box, ["opt_teleport", "opt_teleport", "opt_teleport", "grad_huge", "opt_signflip", "opt_zero", "grad_nan", "grad_inf"])
    if prop == "C09":
        # history: 0-2 other layers are built in the same process before the model under test
        pre = []
        sib = _maf_sibling(w["model"], r)
        if sib is None and w["model"].get("kind") == "bnaf" and r.random() < 0.7:
            sb = _bnaf_sibling(w["model"], rng_for(seed, prop, tier, "bnaf-sibling", idx))
            if sb is not None:
                pre.append(sb)
        if sib is not None and r.random() < 0.8:
            pre.append(sib)
        elif r.random() < 0.4:
            pre.append(_fill_values(_flow_spec(r, flows=("maf", "coupling"), transformers=("affine", "loc", "scale")), r))
        w["prelude"] = pre
    if prop == "C09":
        w["faults"] = _faults(r, hint, box, ["opt_teleport", "opt_teleport", "opt_teleport", "opt_teleport_positive", "opt_teleport_positive", "grad_huge", "opt_signflip"], p_none=0.15)
    if prop == "C11":
        w["faults"] = _faults(r, hint, box, ["opt_teleport", "opt_teleport", "opt_teleport", "opt_teleport", "grad_huge", "opt_signflip"], p_none=0.2)
        if r.random() < 0.7:
            # process history around the run (failed / rejected / successful constructions), then the
            # rejection panel: invalid constructor arguments must be rejected whatever happened before
            from sim import history_ops

            w["history"] = {"pre": history_ops.draw_history(r), "post": history_ops.draw_history(r), "panel": list(history_ops.PANEL_NAMES)}
    if prop in ("C18", "C11", "C12", "C09") and r.random() < (0.4 if prop == "C18" else 0.15):
        # process history: a sibling configuration (same array shapes, different python-valued settings)
        # is built AND evaluated in the same process before the model under test
        sib = sibling_config(b["model"], r)
        if sib is not None:
            w["prelude_use"] = [_fill_values(sib, r)] if b["model"]["kind"] != "named" else []
    if prop == "C18":
        w["faults"] = []
        if r.random() < 0.35:  # perturbed parameters: one early teleport of modest size
            w["faults"] = [{"step": r.choice([0, 1, 2]), "kind": "opt_teleport", "seed": r.randrange(2**30), "scale": r.choice([0.5, 2.0])}]
        if r.random() < 0.45 and b["model"]["kind"] != "named":
            # parameters perturbed at initialisation; exact-knot fault rows are resolved against the perturbed model
            w["init_perturb"] = {"seed": r.randrange(2**31), "scale": r.choice([0.5, 2.0, 5.0])}
            _widen_perturb(w, rng_for(seed, prop, tier, "wide-perturb", idx))
        w["max_epochs"] = r.choice([1, 2, 2, 3])
        w["data"]["fault_rows"] = _fault_rows(r, w)
        if r.random() < 0.3 or b["model"].get("name") in ("MixShiftedLogNormal", "LogNormal", "Exponential"):
            w["data"]["source"] = "normal"  # rows on both sides of the support boundaries
            w["data"]["scale"] = r.choice([0.5, 1.0, 3.0])
    return w


def _is_knotty(spec):
    return spec["kind"] in ("vspline", "scan_vspline") or any("VSpline" in it[0] for it in spec.get("items", []))


def _widen_perturb(w, rw):
    """Direct splines only (raw parameters are the spline's own leaves, so |raw| stays far inside the +-50 box): half of the
    perturbed worlds use a wide perturbation (8 or 12). Knot derivatives near min_derivative next to steep bins are the
    states in which the inverse's quadratic loses its discriminant at an exact knot (F-8); with scale <= 5 the smallest
    derivative is ~1e-2 and that state is reached about once in twenty perturbed splines, with 12 about once in three.
    Own random stream: every other draw of the world is unchanged."""
    if _is_knotty(w["model"]) and rw.random() < 0.5:
        w["init_perturb"]["scale"] = rw.choice([8.0, 12.0])


# ------------------------------------------------------------------ C18 data faults
SYM_SPLINE = ["lo", "lo", "lo", "hi", "hi", "hi", "lo-", "lo+", "hi-", "hi+", "knot", "knot", "knot+", "knot-", "yknot", "yknot", "out_lo", "out_hi", "mid"]
SYM_TANH = ["max_val", "-max_val", "max_val-", "max_val+", "tanh_max_val", "-tanh_max_val", "tanh_max_val-", "tanh_max_val+", "1", "-1", "1-", "1+"]
SYM_GENERIC = ["0", "-0", "big", "-big", "huge", "-huge", "tiny"]
SYMBOLS = SYM_SPLINE + SYM_TANH + SYM_GENERIC


def _relevant_symbols(spec):
    """Bias fault values towards the boundaries this model actually compares against."""
    rel = []
    items = [it[0] for it in spec.get("items", [])]
    if "interval" in spec or spec.get("transformer") == "spline" or any("VSpline" in i for i in items) or spec["kind"] in ("vspline", "scan_vspline"):
        rel += SYM_SPLINE
    if any("Tanh" in i for i in items) or spec["kind"] == "scan_vspline":
        rel += SYM_TANH
    if spec["kind"] == "tri_spline":
        rel += SYM_TANH + ["lo", "hi", "big", "huge", "-big", "-huge"]
    if spec["kind"] == "bnaf":
        rel += ["big", "huge", "-big", "-huge", "big", "huge", "0", "max_val", "-max_val"]
    if any(("SoftPlus" in i) or ("Exp" in i) for i in items):
        rel += ["big", "huge", "-big", "-huge", "0", "tiny", "big", "huge"]
    return rel


def _fault_rows(r, w):
    if r.random() < 0.15:
        return []
    rows = []
    n = w["data"]["n"]
    dim = w["model"].get("dim", 1) or 1
    rel = _relevant_symbols(w["model"])
    n_rows = r.choice([1, 1, 2, 3, 4])
    knotty = w["model"]["kind"] in ("vspline", "scan_vspline") or any("VSpline" in it[0] for it in w["model"].get("items", []))
    if knotty and w.get("init_perturb") and r.random() < 0.7:
        # many exact-knot rows against a perturbed spline: rounding in the inverse's quadratic is a rare event per knot
        n_rows = r.choice([4, 6, 8])
        rel = ["knot", "yknot", "knot", "yknot", "hi", "lo"] + rel[:4]
    for _ in range(n_rows):
        coords = sorted(r.sample(range(dim), r.choice([1, 1, dim])))
        syms = [r.choice(rel) if (rel and r.random() < 0.7) else r.choice(SYMBOLS) for _ in coords]
        rows.append({"pos": r.randrange(n), "coords": coords, "symbols": syms, "knot_index": r.randrange(8)})
    # place some faults exactly where this model branches: one row on each critical boundary
    items = [it[0] for it in w["model"].get("items", [])]
    must = []
    if any("Tanh" in i for i in items):
        must += [r.choice(["1", "-1"]), r.choice(["tanh_max_val", "-tanh_max_val", "max_val", "-max_val"])]
    if knotty or w["model"].get("transformer") == "spline":
        must += [r.choice(["lo", "hi"]), r.choice(["lo", "knot", "yknot"])]
    for sym in must:
        if r.random() < 0.8:
            rows.append({"pos": r.randrange(n), "coords": [r.randrange(dim)], "symbols": [sym], "knot_index": r.randrange(8)})
    return rows


# ------------------------------------------------------------------ signature / triviality / shrinking
def signature(prop, world, result, probes, mode):
    m = {k: v for k, v in world["model"].items() if k not in ("seed", "args")}
    fired = tuple(sorted((s["fault"]) for s in result["steps"] if s["fault"]))
    fr = tuple(sorted(tuple(x["symbols"]) for x in world.get("data", {}).get("fault_rows", []))) if prop == "C18" else ()
    return (prop, repr(sorted(m.items())), repr(world.get("freeze")), world["loop"], world["loss"], world["opt"], len(result["steps"]),
            fired, fr, world.get("return_best"), bool(result.get("exception")), tuple(sorted(k for k, v in probes.items() if v and k.startswith("sig_"))))


def nontrivial(prop, world, result):
    """>= 2 gradient steps recorded (so at least one state was reached by a real update)."""
    return len(result["steps"]) >= 2 and not result.get("exception")


def shrink_candidates(w):
    def mod(**kw):
        c = copy.deepcopy(w)
        c.update(kw)
        return c

    if w.get("show_progress"):
        yield mod(show_progress=False)
    if w.get("key_style") == "typed":
        yield mod(key_style="legacy")
    fs = w.get("faults", [])
    for i in range(len(fs)):
        yield mod(faults=fs[:i] + fs[i + 1 :])
    fr = w.get("data", {}).get("fault_rows", [])
    for i in range(len(fr)):
        c = copy.deepcopy(w)
        c["data"]["fault_rows"] = fr[:i] + fr[i + 1 :]
        yield c
    for i, row in enumerate(fr):
        if len(row["coords"]) > 1:
            for j in range(len(row["coords"])):
                c = copy.deepcopy(w)
                c["data"]["fault_rows"][i]["coords"] = [row["coords"][j]]
                c["data"]["fault_rows"][i]["symbols"] = [row["symbols"][j]]
                yield c
    fz = w.get("freeze", [])
    for i in range(len(fz)):
        yield mod(freeze=fz[:i] + fz[i + 1 :])
    if w.get("init_perturb"):
        c = copy.deepcopy(w)
        del c["init_perturb"]
        yield c
    pre = w.get("prelude", [])
    for i in range(len(pre)):
        yield mod(prelude=pre[:i] + pre[i + 1 :])
    if w.get("prelude_train"):
        c = copy.deepcopy(w)
        del c["prelude_train"]
        yield c
    if w.get("prelude_use"):
        c = copy.deepcopy(w)
        del c["prelude_use"]
        yield c
    hist = w.get("history")
    if hist:
        for part in ("pre", "post"):
            for i in range(len(hist[part])):
                c = copy.deepcopy(w)
                c["history"][part] = hist[part][:i] + hist[part][i + 1 :]
                yield c
        if len(hist["panel"]) > 1:
            for i in range(len(hist["panel"])):
                c = copy.deepcopy(w)
                c["history"]["panel"] = [hist["panel"][i]]
                yield c
    if w["loop"] == "vi":
        if w["steps"] > 1:
            yield mod(steps=w["steps"] - 1)
            yield mod(steps=1)
    else:
        if w["max_epochs"] > 1:
            yield mod(max_epochs=w["max_epochs"] - 1)
        if w["max_patience"] != 5:
            yield mod(max_patience=5)
    if w.get("return_best"):
        yield mod(return_best=False)
    if w["opt"] != "sgd":
        yield mod(opt="sgd")
    m = w["model"]
    if m.get("layers", 1) > 1:
        c = copy.deepcopy(w)
        c["model"]["layers"] = 1
        yield c
    if m.get("depth", 0) > 0:
        c = copy.deepcopy(w)
        c["model"]["depth"] = 0
        yield c
    if m.get("base"):
        c = copy.deepcopy(w)
        del c["model"]["base"]
        yield c
    if m.get("kind") == "chain" and len(m["items"]) > 1:
        for i in range(len(m["items"])):
            c = copy.deepcopy(w)
            c["model"]["items"] = m["items"][:i] + m["items"][i + 1 :]
            yield c
