"""Seeded mutants for the sensitivity self-test: textual edits applied to a scratch copy of
/repo/flowjax. Each must compile, and each breaks the named property."""

TU = "flowjax/train/train_utils.py"
DF = "flowjax/train/data_fit.py"
VF = "flowjax/train/variational_fit.py"

MUTANTS = [
    # ------------------------------------------------------------------ C15
    dict(id="c15_split_separate_keys", prop="C15", file=TU,
         old="    arrays = [jr.permutation(key, a) for a in arrays]\n",
         new="    arrays = [jr.permutation(k, a) for k, a in zip(jr.split(key, len(arrays)), arrays)]\n"),
    dict(id="c15_split_independent", prop="C15", file=TU,
         old="    arrays = [jr.permutation(key, a) for a in arrays]\n",
         new="    arrays = [jr.permutation(key, a, independent=True) for a in arrays]\n"),
    dict(id="c15_val_overlaps_train", prop="C15", file=TU,
         old="    val_arrays = [arr[n_train:] for arr in arrays]\n",
         new="    val_arrays = [arr[n_train - 1 :] for arr in arrays]\n"),
    dict(id="c15_val_through_step", prop="C15", file=DF,
         old="            loss_i = loss_fn(params, static, *batch, key=subkey)\n",
         new="            params, opt_state, loss_i = step(params, static, *batch, optimizer=optimizer, opt_state=opt_state, loss_fn=loss_fn, key=subkey)\n"),
    dict(id="c15_train_key_not_refreshed", prop="C15", file=DF,
         old="        for batch in zip(*get_batches(train_data, batch_size), strict=True):\n            key, subkey = jr.split(key)\n",
         new="        for batch in zip(*get_batches(train_data, batch_size), strict=True):\n"),
    dict(id="c15_val_key_not_refreshed", prop="C15", file=DF,
         old="        for batch in zip(*get_batches(val_data, batch_size), strict=True):\n            key, subkey = jr.split(key)\n",
         new="        for batch in zip(*get_batches(val_data, batch_size), strict=True):\n"),
    dict(id="c15_drop_leading_remainder", prop="C15", file=TU,
         old="    return arr[: n_batches * batch_size].reshape(n_batches, batch_size, *arr.shape[1:])\n",
         new="    return arr[arr.shape[0] - n_batches * batch_size :].reshape(n_batches, batch_size, *arr.shape[1:])\n"),
    dict(id="c15_epoch_shuffle_separate_keys", prop="C15", file=DF,
         old="        train_data = [jr.permutation(subkeys[0], a) for a in train_data]\n",
         new="        train_data = [jr.permutation(k, a) for k, a in zip(jr.split(subkeys[0], len(train_data)), train_data)]\n"),
    dict(id="c15_no_clip_batch_size", prop="C15", file=TU,
         old="    batch_size = min(batch_size, arr.shape[0])\n",
         new="    batch_size = min(batch_size, max(arr.shape[0], 3))\n"),
    dict(id="c15_epoch_reshuffle_leaks_val", prop="C15", file=DF,
         old="        val_data = [jr.permutation(subkeys[1], a) for a in val_data]\n",
         new="        val_data = [jr.permutation(subkeys[1], a) for a in val_data]\n"
             "        if len(losses[\"val\"]) == 2:  # re-split after two epochs\n"
             "            _all = [jnp.concatenate([t, v]) for t, v in zip(train_data, val_data)]\n"
             "            _all = [jr.permutation(subkeys[0], a) for a in _all]\n"
             "            train_data = [a[: len(t)] for a, t in zip(_all, train_data)]\n"
             "            val_data = [a[len(t) :] for a, t in zip(_all, train_data)]\n"),
    dict(id="c15_drop_extra_batch", prop="C15", file=TU,
         old="    n_batches = arr.shape[0] // batch_size\n",
         new="    n_batches = max(1, arr.shape[0] // batch_size - (arr.shape[0] // batch_size > 3))\n"),
    dict(id="c15_same_key_every_epoch", prop="C15", file=DF,
         old="        key, *subkeys = jr.split(key, 3)\n",
         new="        _, *subkeys = jr.split(key, 3)\n"),
    # ------------------------------------------------------------------ C16
    dict(id="c16_patience_ge", prop="C16", file=DF,
         old="        elif count_fruitless(losses[\"val\"]) > max_patience:\n",
         new="        elif count_fruitless(losses[\"val\"]) >= max_patience:\n"),
    dict(id="c16_count_fruitless_off_by_one", prop="C16", file=TU,
         old="    return len(losses) - min_idx - 1\n",
         new="    return len(losses) - min_idx\n"),
    dict(id="c16_min_to_max", prop="C16", file=DF,
         old="        if losses[\"val\"][-1] == min(losses[\"val\"]):\n",
         new="        if losses[\"val\"][-1] == max(losses[\"val\"]):\n"),
    dict(id="c16_best_before_epoch_updates", prop="C16", file=DF,
         old="        # Train epoch\n        batch_losses = []\n",
         new="        # Train epoch\n        epoch_start_params = params\n        batch_losses = []\n",
         ),
    dict(id="c16_return_last_under_best", prop="C16", file=DF,
         old="    params = best_params if return_best else params\n    dist = eqx.combine(params, static)\n",
         new="    params = params if return_best else params\n    dist = eqx.combine(params, static)\n"),
    dict(id="c16_extra_epoch", prop="C16", file=DF,
         old="    loop = tqdm(range(max_epochs), disable=not show_progress)\n",
         new="    loop = tqdm(range(max_epochs + 1), disable=not show_progress)\n"),
    dict(id="c16_vi_extra_step", prop="C16", file=VF,
         old="    keys = tqdm(jr.split(key, steps), disable=not show_progress)\n",
         new="    keys = tqdm(jr.split(key, steps + 1), disable=not show_progress)\n"),
    dict(id="c16_vi_best_after_update", prop="C16", file=VF,
         old="            best_params = params  # step's loss is evaluated before the update\n",
         new="            best_params = new_params\n"),
    dict(id="c16_stop_on_train_loss", prop="C16", file=DF,
         old="        elif count_fruitless(losses[\"val\"]) > max_patience:\n",
         new="        elif count_fruitless(losses[\"train\"]) > max_patience:\n"),
    dict(id="c16_vi_return_last_under_best", prop="C16", file=VF,
         old="    params = best_params if return_best else params\n    return eqx.combine(params, static), losses\n",
         new="    params = params if return_best and len(losses) > 3 else (best_params if return_best else params)\n    return eqx.combine(params, static), losses\n"),
    dict(id="c16_best_only_if_strictly_better_from_second", prop="C16", file=DF,
         old="        if losses[\"val\"][-1] == min(losses[\"val\"]):\n            best_params = params\n",
         new="        if losses[\"val\"][-1] == min(losses[\"val\"]) and len(losses[\"val\"]) != 3:\n            best_params = params\n"),
    dict(id="c16_vi_drop_loss_record", prop="C16", file=VF,
         old="        losses.append(loss.item())\n",
         new="        losses.append(loss.item())\n        if len(losses) == 5:\n            losses.pop(0)\n"),
]

# c16_best_before_epoch_updates needs a second edit (store the captured params); express it
# as one replacement on a larger unique block instead
for _m in MUTANTS:
    if _m["id"] == "c16_best_before_epoch_updates":
        _m["old"] = "        # Train epoch\n        batch_losses = []\n        for batch in zip(*get_batches(train_data, batch_size), strict=True):\n"
        _m["new"] = "        # Train epoch\n        best_candidate = params\n        batch_losses = []\n        for batch in zip(*get_batches(train_data, batch_size), strict=True):\n"
        _m["post"] = ("            best_params = params\n", "            best_params = best_candidate\n")
