"""Self-tests of the machinery (not registered as property checks).

  bin/check selftest determinism [PROPS...]   many seeds x 2 executions, different worker counts
                                              and PYTHONHASHSEED values; digests must agree
  bin/check selftest sensitivity [PROPS...]   each seeded mutant (textual edit of a scratch copy
                                              of /repo under /tmp, removed afterwards) must be
                                              caught by the property's check within a small budget
  bin/check selftest reach [PROPS...]         reads evidence/<id>.json: every probe non-zero
  bin/check selftest worldgen [PROPS...]      every world of every tier generates and serialises

The quick/thorough commands never touch scratch copies; they only read /repo.
"""

from __future__ import annotations

import json
import os
import shutil
import subprocess
import sys
import tempfile
import time
from concurrent.futures import ThreadPoolExecutor

from sim import core
from sim.mutants import MUTANTS


def _copy_repo(dst):
    shutil.copytree(os.path.join(core.REPO_DIR, "flowjax"), os.path.join(dst, "flowjax"))


def run_mutant(m, scale, workers):
    tmp = tempfile.mkdtemp(prefix=f"verif-mut-{m['id']}-", dir="/tmp")
    t0 = time.time()
    try:
        _copy_repo(tmp)
        path = os.path.join(tmp, m["file"])
        src = open(path).read()
        if m["old"] not in src:
            return {"id": m["id"], "prop": m["prop"], "status": "STALE", "detail": "pattern not found (repo changed?)", "wall": 0}
        src = src.replace(m["old"], m["new"], 1)
        if "pre_import" in m:
            src = src.replace(m["pre_import"][1], m["pre_import"][2], 1)
        if "post" in m:
            if m["post"][0] not in src:
                return {"id": m["id"], "prop": m["prop"], "status": "STALE", "detail": "post pattern not found", "wall": 0}
            src = src.replace(m["post"][0], m["post"][1], 1)
        for old, new in m.get("extra", []):
            if old not in src:
                return {"id": m["id"], "prop": m["prop"], "status": "STALE", "detail": "extra pattern not found", "wall": 0}
            src = src.replace(old, new, 1)
        open(path, "w").write(src)
        env = dict(os.environ)
        env.update({"VERIF_REPO": tmp, "VERIF_SCALE": str(scale), "VERIF_WORKERS": str(workers),
                    "VERIF_WORK": tmp, "VERIF_NO_EVIDENCE": "1", "VERIF_REPLAY_DIR": os.path.join(tmp, "replays")})
        p = subprocess.run([os.path.join(core.VERIF_DIR, "bin", "check"), m["prop"], m.get("tier", "quick")],
                           env=env, capture_output=True, text=True, timeout=1800)
        out = p.stdout + p.stderr
        viol = [ln for ln in out.splitlines() if ln.startswith("VIOLATION")]
        status = "CAUGHT" if p.returncode == 1 and viol else ("HARNESS" if p.returncode == 2 else ("RARE-MISS" if m.get("rare") else "MISSED"))
        replay_ok = None
        if status == "CAUGHT":
            # the minimised replay file must fail the same way, with the same digest, in a fresh process
            import re

            mm = re.search(r"replay=(\S+)", viol[0])
            if mm and os.path.exists(mm.group(1)):
                rp = subprocess.run([os.path.join(core.VERIF_DIR, "bin", "check"), "--replay", mm.group(1)],
                                    env=env, capture_output=True, text=True, timeout=900)
                replay_ok = rp.returncode == 1 and "digest_match=True" in rp.stdout and "VIOLATION" in rp.stdout
                if not replay_ok:
                    status = "REPLAY-MISMATCH"
        return {"id": m["id"], "prop": m["prop"], "status": status, "rc": p.returncode, "replay_reproduced": replay_ok,
                "detail": (viol[0][:260] if viol else out[-400:]), "wall": round(time.time() - t0, 1)}
    except subprocess.TimeoutExpired:
        return {"id": m["id"], "prop": m["prop"], "status": "TIMEOUT", "detail": "", "wall": round(time.time() - t0, 1)}
    finally:
        shutil.rmtree(tmp, ignore_errors=True)


def sensitivity(props, scale=None, workers=None, parallel=None, only=None):
    from sim.props import SPECS

    ms = [m for m in MUTANTS if (not props or m["prop"] in props) and (not only or m["id"] in only)]
    results = []
    eng_b = any(SPECS[m["prop"]].engine == "B" for m in ms)
    scale = scale or float(os.environ.get("VERIF_MUT_SCALE", "0.8" if eng_b else "0.35"))
    workers = workers or (8 if eng_b else 4)
    parallel = parallel or (2 if eng_b else 4)
    with ThreadPoolExecutor(parallel) as ex:
        for r in ex.map(lambda m: run_mutant(m, scale, workers), ms):
            print(f"  [{r['status']:7s}] {r['prop']} {r['id']:34s} {r['wall']:6.1f}s  {r['detail'][:200]}", flush=True)
            results.append(r)
    missed = [r for r in results if r["status"] not in ("CAUGHT", "RARE-MISS")]
    print(f"sensitivity: {len(results) - len(missed)}/{len(results)} mutants caught")
    out = os.path.join(core.VERIF_DIR, "selftest_sensitivity.json")
    prev = {}
    if os.path.exists(out):
        try:
            prev = {r["id"]: r for r in json.load(open(out))["results"]}
        except Exception:  # noqa: BLE001
            prev = {}
    for r in results:
        prev[r["id"]] = r
    json.dump({"results": [prev[k] for k in sorted(prev)]}, open(out, "w"), indent=1)
    return 0 if not missed else 1


def determinism(props, n_idx=48):
    """Same indices, executed by 1 worker and by 3 workers, under two PYTHONHASHSEED values."""
    from sim.props import SPECS
    from sim.runner import read_lines, spawn_worker

    bad = 0
    for prop in props or sorted(SPECS):
        spec = SPECS[prop]
        K = spec.bucket_k
        idxs = list(range(0, n_idx))
        # also some far-away indices (other buckets)
        idxs += [1000 * K + i for i in range(K)]
        tmp = tempfile.mkdtemp(prefix="verif-det-", dir="/tmp")
        try:
            configs = [("a", [idxs], "0"), ("b", [idxs[0::3], idxs[1::3], idxs[2::3]], "777"), ("c", [list(reversed(idxs))], "31337")]
            digests = {}
            for name, parts, hs in configs:
                procs = []
                for j, part in enumerate(parts):
                    out = os.path.join(tmp, f"{name}{j}.jsonl")
                    p, log = spawn_worker(prop, "quick", 4242, 0, 1, out, soft=1e9, buckets=0, recheck=0,
                                          indices=part, extra_env={"PYTHONHASHSEED": hs}, no_shrink=True)
                    procs.append((p, log, out))
                d = {}
                for p, log, out in procs:
                    rc = p.wait(timeout=3600)
                    log.close()
                    lines, done = read_lines(out)
                    if rc != 0 or done is None:
                        print(f"HARNESS-ERROR determinism {prop} config {name}: worker rc={rc}")
                        bad += 1
                    for ln in lines:
                        if "digest" in ln:
                            d[ln["idx"]] = ln["digest"]
                digests[name] = d
            ref = digests["a"]
            mism = 0
            for name in ("b", "c"):
                for i, dg in digests[name].items():
                    if ref.get(i) != dg:
                        mism += 1
            n = len(ref)
            print(f"determinism {prop}: {n} runs x 3 executions (1 vs 3 worker processes, forward vs reversed order, 3 PYTHONHASHSEED values): {mism} mismatches")
            bad += mism
            if n < len(idxs):
                print(f"HARNESS-ERROR determinism {prop}: only {n}/{len(idxs)} runs produced a digest")
                bad += 1
        finally:
            shutil.rmtree(tmp, ignore_errors=True)
    return 0 if bad == 0 else 2


def reach(props):
    from sim.props import SPECS
    from sim import rules

    bad = 0
    for prop in props or sorted(SPECS):
        path = os.path.join(core.VERIF_DIR, "evidence", f"{prop}.json")
        ev = json.load(open(path))
        cov = ev["coverage"]
        zero = [k for k, v in cov.get("reach_probes", {}).items() if not v]
        zero += ["fault:" + k for k, v in cov.get("fault_kinds_fired", {}).items() if not v and k not in rules.OPTIONAL_FAULTS.get(prop, [])]
        want = rules.REQUIRED_PROBES.get(prop, [])
        missing = [k for k in want if not cov.get("reach_probes", {}).get(k)]
        print(f"reach {prop} ({ev['tier']}): probes at zero: {zero or 'none'}; required but never hit: {missing or 'none'}")
        bad += len(missing)
    return 0 if bad == 0 else 1


def worldgen(props):
    """Every world of every tier (quick: all indices; thorough: every 7th) for four seeds must be
    generated without error, and JSON-serialisable — a generator bug is a harness error waiting to happen."""
    from sim.props import SPECS

    bad = 0
    n = 0
    for prop in props or sorted(SPECS):
        spec = SPECS[prop]
        for tier in ("quick", "thorough"):
            step = 1 if tier == "quick" else 7
            for seed in (0, 1, 2, 3):
                for idx in range(0, spec.tiers[tier]["buckets"] * spec.bucket_k, step):
                    n += 1
                    try:
                        core.canon_json(spec.world_for(tier, seed, idx))
                    except Exception as e:  # noqa: BLE001
                        bad += 1
                        if bad <= 3:
                            print(f"worldgen {prop} {tier} seed={seed} idx={idx}: {type(e).__name__}: {e}")
    print(f"worldgen: {n} worlds generated, {bad} errors")
    return 0 if bad == 0 else 2


def twins(args):
    """selftest twins <n> <seed> [first]: run n sequence-versus-alone twins of C15 on the current tree
    (soundness soak of the twin oracle: every one must agree on a tree where the property holds)."""
    import time as _t

    from sim import worlds_a
    from sim.props import SPECS

    core.assert_flowjax_from_repo()
    n, seed = int(args[0]), int(args[1])
    first = int(args[2]) if len(args) > 2 else 0
    spec = SPECS["C15"]
    bad = 0
    for k in range(first, first + n):
        idx = worlds_a.TWIN_SLOT + worlds_a.TWIN_PERIOD * k
        w = worlds_a.world_for("C15", "quick", seed, idx)
        t0 = _t.time()
        r = spec.run(w)
        V, _P, _m = spec.oracle(w, r)
        print(f"twin seed={seed} idx={idx} src={w['inner']['prop']} model={w['inner']['model'].get('kind')} {_t.time() - t0:.1f}s {'OK' if not V else 'DIFF ' + V[0]['detail'][:200]}", flush=True)
        bad += bool(V)
    print(f"twins: {n - bad}/{n} agree")
    return 0 if not bad else 1


def main(argv):
    if not argv:
        print(__doc__)
        return 2
    cmd, rest = argv[0], argv[1:]
    if cmd == "twins":
        return twins(rest)
    only = None
    if "--only" in rest:
        i = rest.index("--only")
        only = set(rest[i + 1].split(","))
        rest = rest[:i] + rest[i + 2 :]
    if cmd == "sensitivity":
        return sensitivity(rest, only=only)
    if cmd == "determinism":
        return determinism(rest)
    if cmd == "reach":
        return reach(rest)
    if cmd == "worldgen":
        return worldgen(rest)
    print(__doc__)
    return 2
