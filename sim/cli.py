"""bin/check entry point:  check <ID> [quick|thorough]  |  check --replay FILE  |  check selftest ..."""

from __future__ import annotations

import os
import sys


def main(argv=None):
    argv = list(sys.argv[1:] if argv is None else argv)
    if not argv:
        print(__doc__)
        return 2
    if argv[0] == "--replay":
        from sim import runner

        return runner.replay(argv[1])
    if argv[0] == "selftest":
        from sim import selftest

        return selftest.main(argv[1:])
    if argv[0] == "setup":
        from sim import setup_check

        return setup_check.main()
    prop = argv[0]
    tier = argv[1] if len(argv) > 1 else os.environ.get("VERIF_TIER", "quick")
    if tier not in ("quick", "thorough"):
        tier = "quick"
    scale = float(os.environ.get("VERIF_SCALE", "1"))
    from sim import runner

    return runner.run_check(prop, tier, scale=scale)


if __name__ == "__main__":
    sys.exit(main())
