"""Greedy, deterministic shrinker: keeps a change iff the same oracle clause still fails."""

from __future__ import annotations

import copy
import math

from sim.worlds_a import valid_val_props


def _finite(v):
    return not (isinstance(v, str) or (isinstance(v, float) and (math.isnan(v) or math.isinf(v))))


def candidates_a(w):
    """Yield simpler engine-A worlds, most aggressive first (fixed order)."""

    def mod(**kw):
        c = copy.deepcopy(w)
        c.update(kw)
        return c

    if w.get("show_progress"):
        yield mod(show_progress=False)
    if w.get("key_style") == "typed":
        yield mod(key_style="legacy")
    if w.get("tail", {}).get("kind") != "inc":
        yield mod(tail={"kind": "inc", "base": 5000.0})
    if w.get("key_seed", 0) != 0:
        yield mod(key_seed=0)
    s = w["script"]
    # shorten the script
    for cut in (len(s) // 2, len(s) - 1):
        if 0 <= cut < len(s):
            yield mod(script=s[:cut])
    # replace non-finite entries by a finite value not otherwise present
    for i, v in enumerate(s):
        if not _finite(v):
            yield mod(script=s[:i] + [777.0 + i] + s[i + 1 :])
    # rank-compress finite values
    fin = sorted({v for v in s if _finite(v)})
    if fin and fin != [float(i) for i in range(len(fin))]:
        yield mod(script=[float(fin.index(v)) if _finite(v) else v for v in s])
    if w["loop"] == "vi":
        if w["steps"] > 0:
            yield mod(steps=w["steps"] - 1)
        return
    if not w.get("np_inputs", True):
        yield mod(np_inputs=True)
    if w.get("cond_cols", 0):
        yield mod(cond_cols=0)
    if w.get("ncols", 1) != 1:
        yield mod(ncols=1)
    if w["max_epochs"] > 0:
        yield mod(max_epochs=w["max_epochs"] - 1)
    if w["max_patience"] > 0:
        yield mod(max_patience=0)
        yield mod(max_patience=w["max_patience"] - 1)
    if w.get("return_best"):
        yield mod(return_best=False)
    n = w["n"]
    for n2 in (max(2, n // 2), n - 1):
        if 2 <= n2 < n and w["val_prop"] in valid_val_props(n2):
            yield mod(n=n2)
    for vp in (0.5, 0.25):
        if vp != w["val_prop"] and vp in valid_val_props(n):
            yield mod(val_prop=vp)
    bs = w["batch_size"]
    for b2 in (1, n, bs // 2, bs - 1):
        if 1 <= b2 != bs:
            yield mod(batch_size=b2)


def candidates_b(w):
    from sim import worlds_b

    yield from worlds_b.shrink_candidates(w)


def shrink(spec, world, clause, max_evals=None):
    """Return (minimised world, evaluations). Deterministic pass order."""
    if max_evals is None:
        max_evals = 120 if spec.engine == "A" else 40
        if world.get("kind") == "group":
            max_evals = 300
    cur = world
    evals = 0
    improved = True
    while improved and evals < max_evals:
        improved = False
        for cand in spec.shrink_candidates(cur):
            if evals >= max_evals:
                break
            evals += 1
            try:
                res = spec.run(cand)
                V, _, _ = spec.oracle(cand, res)
            except Exception:  # noqa: BLE001 - a candidate that cannot run is not simpler
                continue
            if any(v["clause"] == clause for v in V):
                cur = cand
                improved = True
                break
    return cur, evals
