"""Oracles over engine-B trajectories (C09, C11, C12, C18).

State invariants are evaluated by jitted check functions (compiled once per model structure)
on: state 0 (as constructed), a seeded subsample of the per-step snapshots, and the returned
model. History invariants (C12 bit-identity, C18 poison clauses) use every recorded event.

Preconditions from the properties' own quantifiers are applied explicitly: states with a
non-finite leaf are skipped and counted (``vacuous_*`` probes), never failed.
"""

from __future__ import annotations

import numpy as np

from sim import engine_b as E

MAX_STATES = 6
PLANAR_BOX = 50.0  # |w.u| above which float32 softplus in the planar projection saturates
PLANAR_WU_MIN = -10.0  # below this the margin softplus(w.u) ~ e^(w.u) approaches float32 resolution next to 1
RAW_BOX = 50.0  # the property's raw-parameter box
HUGE_LOSS = 1e12  # |batch loss| above which float32 gradient overflow (not NaN branches) is the expected outcome
EXPLODED_PARAM = 50.0  # a trainable leaf beyond the raw-parameter box of the property family (|raw| <= 50, 'where float32 softplus does not
# underflow'): training has diverged; e.g. a weight-norm scale of raw -57 makes a block-diagonal weight exactly 0 and log(0) poisons the gradient


def _crashed(result):
    return [{"clause": "run.exception", "detail": "the training loop raised on valid inputs: " + result["exception"]}]


def _np(a):
    return np.asarray(a)


def _leaf_equal(a, b):
    a, b = _np(a), _np(b)
    return a.dtype == b.dtype and a.shape == b.shape and a.tobytes() == b.tobytes()


def _state_indices(world, result):
    """Deterministic subsample of recorded steps: first, last, every step right after a fired
    fault, then evenly spaced — at most MAX_STATES."""
    n = len(result["steps"])
    if n == 0:
        return []
    max_states = int(world.get("max_states", MAX_STATES))
    pick = [0, n - 1]
    for i, s in enumerate(result["steps"]):
        if s["fault"] and i + 1 < n:
            pick.append(i + 1)
    step = max(1, n // max_states)
    pick.extend(range(0, n, step))
    out = []
    for i in pick:
        if i not in out:
            out.append(i)
    return sorted(out[:max_states])


def _probe_points(world, result, m=3):
    """A few in-support evaluation points (rows of the training data, or model samples for vi)."""
    import jax.numpy as jnp
    import jax.random as jr

    from sim import zoo

    shape, cond_dim = zoo.model_dims(world["model"])
    x, cond = result["data"]
    if x is None:
        r = np.random.default_rng(world["key_seed"] % (2**32))
        try:
            x = np.asarray(E._sample(result["model_plain"], jr.PRNGKey(world["key_seed"] % (2**31)), m, None), dtype=np.float32)
            if not np.all(np.isfinite(x)):
                raise FloatingPointError
        except Exception:  # noqa: BLE001
            x = r.normal(size=(m,) + shape).astype(np.float32)
        cond = None
    xs = jnp.asarray(np.asarray(x)[:m])
    cs = None if cond is None else jnp.asarray(np.asarray(cond)[:m])
    return xs, cs


# =========================================================================== jitted checks
_JIT = {}


def _jit(name, fn):
    import equinox as eqx

    if name not in _JIT:
        _JIT[name] = eqx.filter_jit(fn)
    return _JIT[name]


def _maxdiff(a, b):
    import jax.numpy as jnp

    a, b = jnp.asarray(a, jnp.float32), jnp.asarray(b, jnp.float32)
    same = (a == b) | (jnp.isnan(a) & jnp.isnan(b))
    d = jnp.where(same, 0.0, jnp.abs(a - b))
    d = jnp.where(jnp.isnan(d), jnp.inf, d)
    return jnp.max(d, initial=0.0)


def _chk_c12(model, xs, cs, key):
    import equinox as eqx
    import jax
    import jax.numpy as jnp
    from flowjax.wrappers import AbstractUnwrappable, NonTrainable, unwrap

    out = {}
    um = unwrap(model)
    is_w = lambda n: isinstance(n, AbstractUnwrappable)  # noqa: E731
    out["n_wrappers_left"] = jnp.asarray(sum(1 for n in jax.tree_util.tree_leaves(um, is_leaf=is_w) if is_w(n)))
    um2 = unwrap(um)
    l1, t1 = jax.tree_util.tree_flatten(um)
    l2, t2 = jax.tree_util.tree_flatten(um2)
    out["idem_struct"] = jnp.asarray(int(t1 == t2))
    d = jnp.zeros(())
    if t1 == t2:
        for a, b in zip(l1, l2, strict=True):
            if eqx.is_array(a):
                d = jnp.maximum(d, _maxdiff(a, b))
    out["idem_diff"] = d
    # every method: same result on the wrapped and on the caller-unwrapped model
    # (a model holding a BlockAutoregressiveNetwork is only evaluated in its analytic direction: the other one
    # runs the bisection inverter, which need not terminate once a fault has flattened the network)
    from flowjax import bijections as _B

    has_bnaf = any(isinstance(n, _B.BlockAutoregressiveNetwork) for n in jax.tree_util.tree_leaves(um, is_leaf=lambda n: isinstance(n, _B.BlockAutoregressiveNetwork)))
    lp_dir = (not has_bnaf) or isinstance(getattr(um, "bijection", None), _B.Invert)
    sample_dir = (not has_bnaf) or not lp_dir
    has_lp = lp_dir
    if lp_dir:
        try:
            out["lp_diff"] = _maxdiff(model.log_prob(xs, cs), um.log_prob(xs, cs))
        except NotImplementedError:  # sampling-only model (tanh planar, not inverted)
            has_lp = False
    if sample_dir:
        try:
            c1 = None if cs is None else cs[0]
            s1, s2 = model.sample(key, (2,), c1), um.sample(key, (2,), c1)
            out["sample_diff"] = _maxdiff(s1, s2)
            (a1, b1), (a2, b2) = model.sample_and_log_prob(key, (2,), c1), um.sample_and_log_prob(key, (2,), c1)
            out["salp_diff"] = jnp.maximum(_maxdiff(a1, a2), _maxdiff(b1, b2))
        except NotImplementedError:
            pass
    bij_w, bij_u = getattr(model, "bijection", None), getattr(um, "bijection", None)
    if bij_w is not None and hasattr(bij_w, "transform_and_log_det") and hasattr(bij_u, "transform_and_log_det"):
        x1 = xs[0]
        c1 = None if cs is None else cs[0]
        dd = jnp.zeros(())
        meths = ("transform", "inverse", "transform_and_log_det", "inverse_and_log_det")
        if has_bnaf:
            meths = ("inverse", "inverse_and_log_det") if lp_dir else ("transform", "transform_and_log_det")
        for meth in meths:
            try:
                r1, r2 = getattr(bij_w, meth)(x1, c1), getattr(bij_u, meth)(x1, c1)
            except NotImplementedError:
                continue
            for a, b in zip(jax.tree_util.tree_leaves(r1), jax.tree_util.tree_leaves(r2), strict=True):
                dd = jnp.maximum(dd, _maxdiff(a, b))
        out["bij_diff"] = dd

    # frozen leaves of a transformer are not parameterised by coupling / autoregressive conditioners:
    # whatever the conditioner outputs, they equal the prototype's (constructor at the zero vector)
    from flowjax import bijections as B

    nodes = []
    _walk(um, 0, nodes)
    cp = jnp.zeros(())
    n_cp = 0
    for node, nb in nodes:
        if not isinstance(node, (B.Coupling, B.MaskedAutoregressive)) or getattr(node, "transformer_constructor", None) is None:
            continue

        def per(layer):
            ds = []
            for i in range(xs.shape[0]):
                ci = None if cs is None else cs[i]
                if isinstance(layer, B.Coupling):
                    net = getattr(layer, "conditioner", None)
                    d0 = layer.untransformed_dim
                    nn_in = xs[i][:d0] if ci is None else jnp.hstack((xs[i][:d0], ci))
                    n_out = layer.dim - d0
                else:
                    net = getattr(layer, "masked_autoregressive_mlp", None)
                    nn_in = xs[i] if ci is None else jnp.hstack((xs[i], ci))
                    n_out = layer.shape[-1]
                if net is None:
                    continue
                tp = jnp.reshape(net(nn_in), (n_out, -1))
                built = eqx.filter_vmap(layer.transformer_constructor)(tp)
                proto = eqx.filter_vmap(layer.transformer_constructor)(jnp.zeros_like(tp))
                is_nt2 = lambda n: isinstance(n, NonTrainable)  # noqa: E731
                fb = [n for n in jax.tree_util.tree_leaves(built, is_leaf=is_nt2) if is_nt2(n)]
                fp = [n for n in jax.tree_util.tree_leaves(proto, is_leaf=is_nt2) if is_nt2(n)]
                for a, b in zip(fb, fp, strict=True):
                    for la, lb in zip(jax.tree_util.tree_leaves(a), jax.tree_util.tree_leaves(b), strict=True):
                        if eqx.is_inexact_array(la):
                            ds.append(_maxdiff(la, lb))
            return {"d": jnp.stack(ds) if ds else jnp.zeros((0,)), "n": jnp.asarray(len(ds))}

        try:
            rr = _vm(per, nb)(node)
            cp = jnp.maximum(cp, jnp.max(rr["d"], initial=0.0))
            n_cp += 1
        except AttributeError:
            pass
    out["cond_param_frozen_diff"] = cp
    out["n_cond_param_layers"] = jnp.asarray(n_cp)

    # exactly zero gradient on every frozen leaf
    def total(m):
        if has_lp:
            lp = m.log_prob(xs, cs)
        else:
            lp = m.sample_and_log_prob(key, (3,), None if cs is None else cs[0])[1]
        return jnp.sum(jnp.where(jnp.isfinite(lp), lp, 0.0))

    g = eqx.filter_grad(total)(model)
    is_nt = lambda n: isinstance(n, NonTrainable)  # noqa: E731
    fg = jnp.zeros(())
    n_frozen = 0
    for node in jax.tree_util.tree_leaves(g, is_leaf=is_nt):
        if is_nt(node):
            for leaf in jax.tree_util.tree_leaves(node):
                if eqx.is_inexact_array(leaf):
                    n_frozen += 1
                    fg = jnp.maximum(fg, jnp.max(jnp.where(jnp.isnan(leaf), jnp.inf, jnp.abs(leaf)), initial=0.0))
    out["frozen_grad_max"] = fg
    out["n_frozen_grad_leaves"] = jnp.asarray(n_frozen)
    return out


def _chk_pair(models, xs, cs, key):
    """Largest difference between the analytic-direction outputs of two models that must denote the same distribution."""
    import jax
    import jax.numpy as jnp
    from flowjax import bijections as _B
    from flowjax.wrappers import unwrap

    ma, mb = models
    ua = unwrap(ma)
    has_bnaf = any(isinstance(n, _B.BlockAutoregressiveNetwork) for n in jax.tree_util.tree_leaves(ua, is_leaf=lambda n: isinstance(n, _B.BlockAutoregressiveNetwork)))
    lp_dir = (not has_bnaf) or isinstance(getattr(ua, "bijection", None), _B.Invert)
    out = {}
    if lp_dir:
        try:
            la, lb = ma.log_prob(xs, cs), mb.log_prob(xs, cs)
            out["lp_diff"] = _maxdiff(la, lb)
            out["lp_scale"] = jnp.max(jnp.where(jnp.isfinite(la), jnp.abs(la), 0.0), initial=0.0)
        except NotImplementedError:
            pass
    if not lp_dir or "lp_diff" not in out:
        c1 = None if cs is None else cs[0]
        (a1, b1), (a2, b2) = ma.sample_and_log_prob(key, (2,), c1), mb.sample_and_log_prob(key, (2,), c1)
        out["lp_diff"] = jnp.maximum(_maxdiff(a1, a2), _maxdiff(b1, b2))
        out["lp_scale"] = jnp.maximum(jnp.max(jnp.abs(a1), initial=0.0), jnp.max(jnp.where(jnp.isfinite(b1), jnp.abs(b1), 0.0), initial=0.0))
    return out


# --------------------------------------------------------------------------- C11 / C09 walkers
def _walk(node, nb, out, depth=0):
    """Collect (typed node, number of leading batch dims from enclosing Scan) from an UNWRAPPED model."""
    import equinox as eqx
    from flowjax import bijections as B
    from flowjax import distributions as D
    from flowjax.bijections.planar import Planar

    if depth > 40:
        return
    typed = (B.Affine, B.Scale, B.TriangularAffine, B.RationalQuadraticSpline, Planar, B.Coupling, B.MaskedAutoregressive, D.VmapMixture,
             B.BlockAutoregressiveNetwork)
    std_t = getattr(D, "_StandardStudentT", ())
    if isinstance(node, B.Scan):
        _walk(node.bijection, nb + 1, out, depth + 1)
        return
    if isinstance(node, typed) or (std_t and isinstance(node, std_t)):
        out.append((node, nb))
        if isinstance(node, D.VmapMixture):
            return  # components carry a mixture batch dim; their constraints are elementwise-checked below
        if not isinstance(node, (B.Coupling, B.MaskedAutoregressive)):
            return
        return
    if isinstance(node, eqx.Module):
        for v in vars(node).values():
            _walk(v, nb, out, depth + 1)
    elif isinstance(node, (tuple, list)):
        for v in node:
            _walk(v, nb, out, depth + 1)
    elif isinstance(node, dict):
        for v in node.values():
            _walk(v, nb, out, depth + 1)


def _vm(fn, nb):
    import equinox as eqx

    for _ in range(nb):
        fn = eqx.filter_vmap(fn, in_axes=(eqx.if_array(0),))
    return fn


def _typed_constraints(node, acc):
    """Elementwise constraints of an unwrapped typed node (arrays may carry leading batch dims)."""
    import jax.numpy as jnp
    from flowjax import bijections as B
    from flowjax import distributions as D
    from jax.scipy.special import logsumexp

    def put(k, v, red):
        v = jnp.asarray(v, jnp.float32)
        v = jnp.where(jnp.isnan(v), -jnp.inf if red == "min" else jnp.inf, v)
        r = jnp.min(v, initial=jnp.inf) if red == "min" else jnp.max(v, initial=-jnp.inf)
        acc[k] = jnp.minimum(acc[k], r) if (k in acc and red == "min") else (jnp.maximum(acc[k], r) if k in acc else r)

    std_t = getattr(D, "_StandardStudentT", ())
    if isinstance(node, (B.Affine, B.Scale)):
        put("scale_min", node.scale, "min")
    elif isinstance(node, B.TriangularAffine):
        tri = node.triangular
        put("tri_diag_min", jnp.diagonal(tri, axis1=-2, axis2=-1), "min")
        other = jnp.triu(tri, k=1) if node.lower else jnp.tril(tri, k=-1)
        put("tri_other_absmax", jnp.abs(other), "max")
    elif std_t and isinstance(node, std_t):
        put("df_min", node.df, "min")
    elif isinstance(node, D.VmapMixture):
        put("mix_lse_absmax", jnp.abs(logsumexp(node.log_normalized_weights, axis=-1)), "max")
        sub = []
        _walk(node.dist, 0, sub)
        for n2, _ in sub:
            _typed_constraints(n2, acc)
    elif isinstance(node, B.RationalQuadraticSpline):
        lo, hi = node.interval
        for nm, pos in (("x", node.x_pos), ("y", node.y_pos)):
            put(f"spline_{nm}_mindiff", jnp.diff(pos, axis=-1), "min")
            put(f"spline_{nm}_end_err", jnp.maximum(jnp.abs(pos[..., 0] - lo), jnp.abs(pos[..., -1] - hi)), "max")
        put("spline_deriv_margin", node.derivatives - node.min_derivative, "min")


def _planar_margin(pl, cond):
    """min over probes of 1 + w.u_hat (must stay > 0) and the |w.u| precondition value."""
    import jax.numpy as jnp

    up = pl.get_planar(cond)
    u_hat = up.get_act_scale()
    raw = jnp.dot(up._act_scale, up.weight) if hasattr(up, "_act_scale") else jnp.zeros(())
    wn = jnp.dot(up.weight, up.weight)
    return 1.0 + jnp.dot(up.weight, u_hat), raw, wn


def _layer_transformer_constraints(layer, x, c, acc_fn):
    """Constraints of the transformer a Coupling / MAF layer builds from its conditioner."""
    import equinox as eqx
    import jax.numpy as jnp
    from flowjax import bijections as B
    from flowjax.wrappers import unwrap

    ctor = getattr(layer, "transformer_constructor", None)
    if ctor is None:
        return {}
    if isinstance(layer, B.Coupling):
        net = getattr(layer, "conditioner", None)
        d = layer.untransformed_dim
        nn_in = x[:d] if c is None else jnp.hstack((x[:d], c))
        n_out = layer.dim - d
    else:
        net = getattr(layer, "masked_autoregressive_mlp", None)
        nn_in = x if c is None else jnp.hstack((x, c))
        n_out = layer.shape[-1]
    if net is None:
        return {}
    tp = jnp.reshape(net(nn_in), (n_out, -1))
    tr = unwrap(eqx.filter_vmap(ctor)(tp))
    acc = {}
    sub = []
    _walk(tr, 0, sub)
    for n2, _ in sub:
        _typed_constraints(n2, acc)
    return acc


def _chk_c11(model, xs, cs, key):
    import jax
    import jax.numpy as jnp
    from flowjax import bijections as B
    from flowjax.bijections.planar import Planar
    from flowjax.wrappers import unwrap

    um = unwrap(model)
    nodes = []
    _walk(um, 0, nodes)
    acc = {}
    c_probe = None if cs is None else cs

    # weight-normalised rows keep their norm parameter: walk the WRAPPED model for WeightNormalization nodes
    from flowjax.wrappers import WeightNormalization

    is_wn = lambda n: isinstance(n, WeightNormalization)  # noqa: E731
    n_wn = 0
    for wn in jax.tree_util.tree_leaves(model, is_leaf=is_wn):
        if not is_wn(wn):
            continue
        n_wn += 1
        w, g, inner = unwrap(wn), unwrap(wn.scale), unwrap(wn.weight)
        def rownorm(a):  # scaled, so that squaring tiny entries (|a| < 1e-19) does not underflow in the MEASUREMENT
            m = jnp.max(jnp.abs(a), axis=-1, keepdims=True)
            return m * jnp.linalg.norm(a / jnp.where(m > 0, m, 1.0), axis=-1, keepdims=True)

        rn = rownorm(w)
        inn = rownorm(inner)
        g = jnp.broadcast_to(g, rn.shape)
        rel = jnp.where(inn >= 1e-12, jnp.abs(rn - g) / jnp.maximum(g, 1e-30), 0.0)
        rel = jnp.where(jnp.isnan(rel), jnp.inf, rel)
        # smallest strictly positive entry of the normalised matrix in exact arithmetic: g * w_ij / ||w_i|| (a product of
        # two softplus-positive numbers: it can leave float32 range although neither factor does)
        minpos = jnp.min(jnp.where(inner > 0, inner, jnp.inf), axis=-1, keepdims=True)
        margin = jnp.min(jnp.where(jnp.isfinite(minpos), g * (minpos / jnp.maximum(inn, 1e-30)), jnp.inf))
        for k, v, red in (("wn_norm_relerr_absmax", jnp.max(rel), "max"), ("wn_scale_min", jnp.min(jnp.where(jnp.isnan(g), -jnp.inf, g)), "min"),
                          ("wn_inner_rownorm_min", jnp.min(jnp.where(jnp.isnan(inn), -jnp.inf, inn)), "min"),
                          ("wn_min_positive_entry", jnp.where(jnp.isnan(margin), -jnp.inf, margin), "min")):
            acc[k] = (jnp.maximum(acc[k], v) if red == "max" else jnp.minimum(acc[k], v)) if k in acc else v
    acc["n_wn_nodes"] = jnp.asarray(n_wn)

    def merge(d, red_of=None):
        for k, v in d.items():
            red = "max" if k.endswith("absmax") or k.endswith("end_err") else "min"
            v = jnp.asarray(v, jnp.float32)
            r = jnp.max(v) if red == "max" else jnp.min(v)
            acc[k] = (jnp.maximum(acc[k], r) if red == "max" else jnp.minimum(acc[k], r)) if k in acc else r

    for node, nb in nodes:
        if isinstance(node, Planar):
            def per(pl):
                outs = []
                for i in range(xs.shape[0]):
                    # the constraint must hold for ANY conditioner output, so a synthetic condition of the
                    # layer's own cond_shape is as good as a real one (and works under EmbedCondition)
                    ci = None
                    if pl.cond_shape is not None:
                        size = 1
                        for d_ in pl.cond_shape:
                            size *= d_
                        ci = (jnp.linspace(-1.0, 1.0, size) * (i + 1.0)).reshape(pl.cond_shape)
                    m, raw, wn = _planar_margin(pl, ci)
                    outs.append((m, raw, wn))
                    if pl.cond_shape is None:
                        break
                return {"planar_margin": jnp.stack([o[0] for o in outs]), "planar_wu_absmax": jnp.abs(jnp.stack([o[1] for o in outs])),
                        "planar_wu_min": jnp.stack([o[1] for o in outs]), "planar_wnorm_min": jnp.stack([o[2] for o in outs])}

            try:
                merge(_vm(per, nb)(node))
            except AttributeError:
                acc["planar_skipped"] = jnp.ones(())
        elif isinstance(node, (B.Coupling, B.MaskedAutoregressive)):
            def per(layer):
                res = {}
                for i in range(xs.shape[0]):
                    ci = None if c_probe is None else c_probe[i]
                    d = _layer_transformer_constraints(layer, xs[i], ci, None)
                    for k, v in d.items():
                        res.setdefault(k, []).append(v)
                return {k: jnp.stack(v) for k, v in res.items()}

            merge(_vm(per, nb)(node))
            # the transformer of the flows' default layer keeps scale >= min_scale; any transformer
            # keeps the layer strictly increasing in the transformed coordinate
            def per_j(layer):
                js = []
                for i in range(xs.shape[0]):
                    ci = None if c_probe is None else c_probe[i]
                    J = jax.jacobian(lambda x: layer.transform(x, ci))(xs[i])
                    dd = jnp.diagonal(J)
                    if isinstance(layer, B.Coupling):
                        dd = dd[layer.untransformed_dim :]
                    js.append(jnp.min(jnp.where(jnp.isnan(dd), -jnp.inf, dd)))
                return {"layer_diag_min": jnp.stack(js)}

            merge(_vm(per_j, nb)(node))
        elif isinstance(node, B.BlockAutoregressiveNetwork):
            continue  # its constrained parts are the weight-normalised matrices handled above
        else:
            d = {}
            _typed_constraints(node, d)
            merge(d)
    return acc


def _chk_c09(model, xs, cs, key):
    import jax
    import jax.numpy as jnp
    from flowjax import bijections as B
    from flowjax.wrappers import unwrap

    um = unwrap(model)
    nodes = []
    _walk(um, 0, nodes)
    acc = {}
    n_layers = {"maf": 0, "coupling": 0}

    def merge(d):
        for k, v in d.items():
            # a NaN Jacobian entry says nothing about dependency (that is C18's subject): counted, not failed
            r = jnp.max(jnp.where(jnp.isnan(v), 0.0, jnp.abs(v)), initial=0.0)
            acc[k] = jnp.maximum(acc[k], r) if k in acc else r
            nn = jnp.sum(jnp.isnan(v))
            acc["nan_entries"] = acc["nan_entries"] + nn if "nan_entries" in acc else nn

    for node, nb in nodes:
        if isinstance(node, B.MaskedAutoregressive):
            n_layers["maf"] += 1
            dim = node.shape[-1]

            def per(layer):
                up, cond_up, fin = [], [], []
                for i in range(xs.shape[0]):
                    ci = None if cs is None else cs[i]
                    J = jax.jacobian(lambda x: layer.transform(x, ci))(xs[i])
                    up.append(jnp.triu(J, k=1))
                    fin.append(jnp.all(jnp.isfinite(J)))
                    net = getattr(layer, "masked_autoregressive_mlp", None)
                    if net is not None:
                        def params_of(x):
                            nn_in = x if ci is None else jnp.hstack((x, ci))
                            return jnp.reshape(net(nn_in), (dim, -1))

                        Jp = jax.jacobian(params_of)(xs[i])  # (dim, P, dim): params of output i w.r.t. x_j
                        mask = (jnp.arange(dim)[None, :] >= jnp.arange(dim)[:, None])[:, None, :]  # j >= i must be 0
                        cond_up.append(jnp.where(mask, Jp, 0.0))
                out = {"maf_upper_absmax": jnp.stack(up)}
                if cond_up:
                    out["maf_params_dep_absmax"] = jnp.stack(cond_up)
                return out

            merge(_vm(per, nb)(node))
        elif isinstance(node, B.Coupling):
            n_layers["coupling"] += 1

            def per(layer):
                d = layer.untransformed_dim
                ident, off = [], []
                for i in range(xs.shape[0]):
                    ci = None if cs is None else cs[i]
                    y = layer.transform(xs[i], ci)
                    ident.append(jnp.where(y[:d] == xs[i][:d], 0.0, 1.0))
                    J = jax.jacobian(lambda x: layer.transform(x, ci))(xs[i])
                    blk = J[d:, d:]
                    off.append(blk - jnp.diag(jnp.diagonal(blk)))
                    off.append(jnp.ravel(J[:d, :] - jnp.eye(J.shape[0])[:d, :]))
                return {"coupling_first_block_changed": jnp.stack(ident), "coupling_offdiag_absmax": jnp.concatenate([jnp.ravel(o) for o in off])}

            merge(_vm(per, nb)(node))
        elif isinstance(node, B.BlockAutoregressiveNetwork):
            n_layers["bnaf"] = n_layers.get("bnaf", 0) + 1
            dim = node.shape[-1]

            def per(layer):
                up, neg, nonpos = [], [], []
                for i in range(xs.shape[0]):
                    ci = None if cs is None else cs[i]
                    J = jax.jacobian(lambda x: layer.transform(x, ci))(xs[i])
                    up.append(jnp.triu(J, k=1))
                    dg = jnp.diagonal(J)
                    neg.append(jnp.where(dg < 0, 1.0, jnp.where(jnp.isnan(dg), jnp.nan, 0.0)))
                    nonpos.append(jnp.where(dg <= 0, 1.0, jnp.where(jnp.isnan(dg), jnp.nan, 0.0)))
                # precondition ingredient for 'strictly positive in float32': the smallest diagonal-block weight
                wmins = []
                for lin, _f in layer.layers:
                    w = lin.weight
                    bs = (w.shape[-2] // dim, w.shape[-1] // dim)
                    dmask = np.kron(np.eye(dim, dtype=bool), np.ones(bs, dtype=bool))
                    wmins.append(jnp.min(jnp.where(dmask, w, jnp.inf)))
                return {"bnaf_upper_absmax": jnp.stack(up), "bnaf_neg_diag": jnp.stack(neg), "bnaf_nonpos_diag": jnp.stack(nonpos),
                        "_bnaf_diagw_min": jnp.min(jnp.stack(wmins))}

            rr = _vm(per, nb)(node)
            dwm = jnp.min(rr.pop("_bnaf_diagw_min"))
            acc["bnaf_diagw_min"] = jnp.minimum(acc["bnaf_diagw_min"], dwm) if "bnaf_diagw_min" in acc else dwm
            merge(rr)
    acc["n_bnaf_nodes"] = jnp.asarray(n_layers.get("bnaf", 0))
    acc["n_maf_nodes"] = jnp.asarray(n_layers["maf"])
    acc["n_coupling_nodes"] = jnp.asarray(n_layers["coupling"])
    return acc


def _chk_c09_pos(model, xs, cs, key):
    """In the all-positive weight state (after an `opt_teleport_positive` fault) and at positive inputs,
    every PERMITTED dependency must be visible: transformer parameters of output i depend on every x_j,
    j < i (claimed when hidden width >= dim) and on every condition coordinate; a coupling conditioner
    depends on every coordinate of the first block and of the condition."""
    import jax
    import jax.numpy as jnp
    from flowjax import bijections as B
    from flowjax.wrappers import unwrap

    um = unwrap(model)
    nodes = []
    _walk(um, 0, nodes)
    acc = {}
    xp = jnp.abs(xs) + 0.5
    cp = None if cs is None else jnp.abs(cs) + 0.5

    def merge(d):
        for k, v in d.items():
            r = jnp.min(jnp.where(jnp.isnan(v), jnp.inf, v), initial=jnp.inf)
            acc[k] = jnp.minimum(acc[k], r) if k in acc else r

    for node, nb in nodes:
        if isinstance(node, B.MaskedAutoregressive):
            dim = node.shape[-1]
            net0 = getattr(node, "masked_autoregressive_mlp", None)
            if net0 is None:
                continue

            def per(layer):
                net = layer.masked_autoregressive_mlp
                out = {}
                for i in range(xp.shape[0]):
                    ci = None if cp is None else cp[i]

                    def params_of(x, c):
                        nn_in = x if c is None else jnp.hstack((x, c))
                        return jnp.reshape(net(nn_in), (dim, -1))

                    Jx = jax.jacobian(params_of, argnums=0)(xp[i], ci)  # (dim, P, dim)
                    lower = (jnp.arange(dim)[None, :] < jnp.arange(dim)[:, None])[:, None, :]
                    out.setdefault("maf_permitted_x_dep_min", []).append(jnp.where(lower, Jx, jnp.inf))
                    if ci is not None:
                        Jc = jax.jacobian(params_of, argnums=1)(xp[i], ci)  # (dim, P, cond)
                        out.setdefault("maf_cond_dep_min", []).append(Jc)
                        # through the public method too (how transform feeds the conditioner)
                        out.setdefault("layer_transform_cond_dep_min", []).append(jax.jacobian(lambda c: layer.transform(xp[i], c))(ci))
                return {k: jnp.stack(v) for k, v in out.items()}

            merge(_vm(per, nb)(node))
        elif isinstance(node, B.Coupling) and getattr(node, "conditioner", None) is not None:
            def per(layer):
                d = layer.untransformed_dim
                out = {}
                for i in range(xp.shape[0]):
                    ci = None if cp is None else cp[i]

                    def params_of(xc, c):
                        nn_in = xc if c is None else jnp.hstack((xc, c))
                        return layer.conditioner(nn_in)

                    out.setdefault("coupling_block_dep_min", []).append(jax.jacobian(params_of, argnums=0)(xp[i][:d], ci))
                    if ci is not None:
                        out.setdefault("coupling_cond_dep_min", []).append(jax.jacobian(params_of, argnums=1)(xp[i][:d], ci))
                        out.setdefault("layer_transform_cond_dep_min", []).append(jax.jacobian(lambda c: layer.transform(xp[i], c))(ci)[d:])
                    out.setdefault("layer_transform_block_dep_min", []).append(jax.jacobian(lambda x: layer.transform(x, ci))(xp[i])[d:, :d])
                return {k: jnp.stack(v) for k, v in out.items()}

            merge(_vm(per, nb)(node))
        elif isinstance(node, B.BlockAutoregressiveNetwork):
            dim = node.shape[-1]

            def per(layer):
                out = {}
                for i in range(xp.shape[0]):
                    ci = None if cp is None else cp[i]
                    J = jax.jacobian(lambda x: layer.transform(x, ci))(xp[i])
                    lower = jnp.arange(dim)[None, :] < jnp.arange(dim)[:, None]
                    out.setdefault("bnaf_lower_dep_min", []).append(jnp.where(lower, J, jnp.inf))
                    if ci is not None:
                        out.setdefault("bnaf_cond_dep_min", []).append(jax.jacobian(lambda c: layer.transform(xp[i], c))(ci))
                return {k: jnp.stack(v) for k, v in out.items()}

            merge(_vm(per, nb)(node))
    return acc


def _run_check(name, fn, model, xs, cs, seed):
    import jax.random as jr

    res = _jit(name, fn)(model, xs, cs, jr.PRNGKey(seed % (2**31)))
    return {k: np.asarray(v) for k, v in res.items()}


def _absmax(leaves):
    m = 0.0
    for a in leaves:
        a = np.asarray(a)
        if np.issubdtype(a.dtype, np.floating) and a.size:
            m = max(m, float(np.max(np.abs(a))))
    return m


def _after_positive_teleport(world, result):
    """Labels of the states that directly follow an all-positive teleport."""
    out = set()
    steps = result["steps"]

    def all_positive(leaves):
        # the fault sets p + (target - p) with target in [0.25, 1]; when |p| is astronomically large (after an
        # injected x1e6 gradient) that sum is not the target in float32, so the state is verified, not assumed
        return all(bool(np.all((np.asarray(a) >= 0.25) & (np.asarray(a) <= 1.0))) for a in leaves if np.asarray(a).size)

    for i, st in enumerate(steps):
        if st["fault"] == E.F_TELEPORT_POS:
            if i + 1 < len(steps):
                if all_positive(steps[i + 1]["params"]):
                    out.add(f"step{i + 1}")
            elif not world.get("return_best") and result.get("ret_model") is not None:
                import equinox as eqx
                import jax
                from flowjax.wrappers import NonTrainable

                tr = eqx.filter(result["ret_model"], eqx.is_inexact_array, is_leaf=lambda n: isinstance(n, NonTrainable))
                leaves = [a for a in jax.tree_util.tree_leaves(tr, is_leaf=lambda n: isinstance(n, NonTrainable)) if not isinstance(a, NonTrainable)]
                if all_positive(leaves):
                    out.add("returned")
    return out


def _states(world, result, box=None):
    """[(label, model, ok?)] for state 0, sampled snapshots, and the returned model. ``ok`` is
    False (model None) for states outside the quantifier: a non-finite leaf, or — when ``box``
    is given — a trainable leaf outside the raw-parameter box."""
    import jax

    out = []
    m0 = result["model0"]
    out.append(("state0", m0, True))
    for i in _state_indices(world, result):
        ps = result["steps"][i]["params"]
        fin = E.leaves_finite(ps) and (box is None or _absmax(ps) <= box)
        out.append((f"step{i}", E.state_model(result, i) if fin else None, fin))
    rm = result["ret_model"]
    if rm is not None:
        leaves = [np.asarray(a) for a in jax.tree_util.tree_leaves(rm) if hasattr(a, "dtype")]
        fin = E.leaves_finite(leaves)
        if fin and box is not None:
            cur = {jax.tree_util.keystr(p): v for p, v in jax.tree_util.tree_flatten_with_path(rm)[0]}
            fin = _absmax([cur[k] for k in E.frozen_and_int_leaves(rm)[2]]) <= box
        out.append(("returned", rm if fin else None, fin))
    return out


# =========================================================================== C12
def oracle_c12(world, result):
    import jax

    V, P = [], {}
    if result.get("exception"):
        return _crashed(result), P, "strict"
    m0, rm = result["model0"], result["ret_model"]
    frozen, ints, trainable = E.frozen_and_int_leaves(m0)
    P["has_frozen"] = int(bool(frozen))
    P["frozen_strict_subset"] = int(bool(frozen) and bool(trainable))
    P["all_frozen"] = int(bool(frozen) and not trainable)
    P["freeze_NT_subtree"] = int(any(f["mode"] == "NT" for f in result["freeze_applied"]))
    P["freeze_fn_leaves"] = int(any(f["mode"] == "fn" for f in result["freeze_applied"]))
    P["sig_frozen"] = P["has_frozen"]
    P["prelude_sibling_trained"] = int(result.get("prelude_train") == "ok")
    # 1. structure and bit-identity after the run -------------------------------------------
    l0, t0 = jax.tree_util.tree_flatten_with_path(m0)
    l1, t1 = jax.tree_util.tree_flatten_with_path(rm)
    if t0 != t1:
        V.append({"clause": "c12.returned_structure", "detail": "the returned model does not have the input's tree structure"})
    else:
        ret = {jax.tree_util.keystr(p): v for p, v in l1}
        ini = {jax.tree_util.keystr(p): v for p, v in l0}
        for k in frozen:
            if not _leaf_equal(ini[k], ret[k]):
                V.append({"clause": "c12.frozen_leaf_moved", "detail": f"non-trainable leaf {k} is not bit-identical after training: {_np(ini[k]).ravel()[:3]} -> {_np(ret[k]).ravel()[:3]}"})
                break
        for k in ints:
            if not _leaf_equal(ini[k], ret[k]):
                V.append({"clause": "c12.nonfloat_leaf_moved", "detail": f"non-floating-point leaf {k} changed during training"})
                break
    # the same by INTENT: every inexact leaf under a node handed to NonTrainable / non_trainable
    intended = sorted({i for f in result["freeze_applied"] for i in f.get("leaf_idx", [])})
    P["intended_frozen_leaves"] = len(intended)
    a0 = E.array_leaves(m0)
    if intended and rm is not None and t0 == t1:
        a1 = E.array_leaves(rm)
        for i in intended:
            if not _leaf_equal(a0[i], a1[i]):
                V.append({"clause": "c12.frozen_leaf_moved", "detail": f"leaf #{i} lies under a node passed to NonTrainable/non_trainable but changed during training: {_np(a0[i]).ravel()[:3]} -> {_np(a1[i]).ravel()[:3]}"})
                break
    # ... and at every recorded state (a frozen leaf that was offered shows up moved)
    moved_any = False
    ini = {jax.tree_util.keystr(p): v for p, v in l0}
    for i in range(len(result["steps"])):
        sm = E.state_model(result, i)
        cur = {jax.tree_util.keystr(p): v for p, v in jax.tree_util.tree_flatten_with_path(sm)[0]}
        for k in frozen + ints:
            if k not in cur or not _leaf_equal(ini[k], cur[k]):
                V.append({"clause": "c12.frozen_leaf_moved", "detail": f"leaf {k} (non-trainable / non-float) differs from its initial value in the parameters offered at step {i}"})
                moved_any = True
                break
        if not moved_any and intended:
            ai = E.array_leaves(sm)
            for j in intended:
                if not _leaf_equal(a0[j], ai[j]):
                    V.append({"clause": "c12.frozen_leaf_moved", "detail": f"leaf #{j} (under a node passed to NonTrainable/non_trainable) differs from its initial value in the parameters offered at step {i}"})
                    moved_any = True
                    break
        if moved_any:
            break
    moved_trainable = False
    if rm is not None and t0 == t1:
        ret = {jax.tree_util.keystr(p): v for p, v in l1}
        moved_trainable = any(not _leaf_equal(ini[k], ret[k]) for k in trainable)
    P["trainable_moved"] = int(moved_trainable)
    P["teleport_fired"] = int(any(s["fault"] == E.F_TELEPORT for s in result["steps"]))
    P["default_loss_and_optimizer"] = int(bool(world.get("use_defaults")))
    P["enumerated_block_runs"] = int(world.get("enumerated") is not None)
    # 2./3. state invariants --------------------------------------------------------------
    xs, cs = _probe_points(world, result)
    n_checked = n_vac = 0
    # a wrapper is replaced by its VALUE: marking leaves non-trainable must not change what the model computes, and a
    # stack of individually constructed layers under Scan must compute what the chain of those layers computes
    value_ops = [op for f in result["freeze_applied"] for op in f.get("post_ops", []) if op.startswith("frozen_leaf_")]
    pairs = []
    if result["freeze_applied"] and not value_ops and not world.get("init_perturb"):
        pairs.append(("c12.freezing_changes_values", "the model with leaves marked non-trainable", "the same model without the marks", m0, result["model_plain"]))
    if world["model"].get("mode") == "scan" and world["model"]["kind"] in ("bnaf", "tri_spline") and not world.get("init_perturb"):
        from sim import zoo

        twin = zoo.build(dict(world["model"], mode="chain"))
        pairs.append(("c12.stacked_wrappers_differ_from_individual", "Scan over the stacked layers", "Chain of the individually constructed layers", result["model_plain"], twin))
    for clause, na, nb, ma, mb in pairs:
        try:
            rp = _run_check(clause, _chk_pair, (ma, mb), xs, cs, world["key_seed"])
        except Exception as e:  # noqa: BLE001
            V.append({"clause": "c12.method_raises", "detail": f"state0: evaluating {na} / {nb} raised {type(e).__name__}: {str(e)[:200]}"})
            break
        P[clause.split(".")[1] + "_checked"] = 1
        if float(rp["lp_diff"]) > 1e-4 * (1.0 + float(rp["lp_scale"])):
            V.append({"clause": clause, "detail": f"state0: {na} and {nb} differ by {float(rp['lp_diff'])} in log_prob / sample_and_log_prob (magnitude {float(rp['lp_scale'])})"})
    for label, model, fin in _states(world, result):
        if V:
            break
        if not fin:
            n_vac += 1
            continue
        try:
            r = _run_check("c12", _chk_c12, model, xs, cs, world["key_seed"])
        except Exception as e:  # noqa: BLE001
            V.append({"clause": "c12.method_raises", "detail": f"{label}: evaluating unwrap/log_prob/sample/grad raised {type(e).__name__}: {str(e)[:200]}"})
            break
        n_checked += 1
        if int(r["n_wrappers_left"]) != 0:
            V.append({"clause": "c12.unwrap_leaves_wrappers", "detail": f"{label}: {int(r['n_wrappers_left'])} wrapper nodes remain after unwrap"})
        if int(r["idem_struct"]) != 1 or float(r["idem_diff"]) != 0.0:
            V.append({"clause": "c12.unwrap_idempotent", "detail": f"{label}: unwrap(unwrap(m)) differs from unwrap(m) by {float(r['idem_diff'])}"})
        for k, nm in (("lp_diff", "log_prob"), ("sample_diff", "sample"), ("salp_diff", "sample_and_log_prob"), ("bij_diff", "bijection methods")):
            if k in r and float(r[k]) > 1e-6:
                V.append({"clause": "c12.method_differs_after_unwrap", "detail": f"{label}: {nm} differs by {float(r[k])} between the wrapped model and unwrap(model)"})
        if float(r.get("cond_param_frozen_diff", 0.0)) != 0.0:
            V.append({"clause": "c12.frozen_transformer_leaf_parameterised", "detail": f"{label}: a non-trainable leaf of a coupling/autoregressive transformer changes with the conditioner output (max diff {float(r['cond_param_frozen_diff'])})"})
        P["cond_param_layers_checked"] = P.get("cond_param_layers_checked", 0) + int(r.get("n_cond_param_layers", 0))
        if float(r["frozen_grad_max"]) != 0.0:
            V.append({"clause": "c12.frozen_grad_nonzero", "detail": f"{label}: a non-trainable leaf received gradient of magnitude {float(r['frozen_grad_max'])}"})
        P["frozen_grad_leaves_checked"] = P.get("frozen_grad_leaves_checked", 0) + int(r["n_frozen_grad_leaves"])
        if V:
            break
    P["states_checked"] = n_checked
    P["vacuous_states"] = n_vac
    return V, P, "strict"


# =========================================================================== C11
def _ctor_roundtrip(world, m0):
    """State-0 clause: accessors reproduce the constructor arguments (rtol 1e-4)."""
    V = []
    spec = world["model"]
    if spec["kind"] != "named":
        return V, 0
    a = spec["args"]
    name = spec["name"]
    n = 0

    def close(got, want, what, rtol=1e-4):
        nonlocal n
        n += 1
        got, want = np.asarray(got, np.float64), np.asarray(want, np.float32).astype(np.float64)
        if got.shape != want.shape or not np.all(np.abs(got - want) <= rtol * np.maximum(np.abs(want), 1e-30) + 0.0):
            V.append({"clause": "c11.ctor_roundtrip", "detail": f"{name}.{what}: constructed with {want.ravel()[:4]}, accessor gives {got.ravel()[:4]}"})

    if name in ("Normal", "Gumbel", "Cauchy", "StudentT", "Laplace", "Logistic"):
        close(m0.scale, a["scale"], "scale")
        close(m0.loc, a["loc"], "loc", rtol=1e-6)
    if name == "LogNormal":
        from flowjax.wrappers import unwrap

        close(unwrap(m0.bijection[0].scale), a["scale"], "scale")
    if name == "StudentT":
        close(m0.df, a["df"], "df")
    if name == "Exponential":
        close(m0.rate, a["rate"], "rate")
    if name == "Uniform":
        close(m0.minval, a["minval"], "minval", rtol=1e-6)
        mx = np.asarray(a["maxval"], np.float32).astype(np.float64)
        mn = np.asarray(a["minval"], np.float32).astype(np.float64)
        n += 1
        got = np.asarray(m0.maxval, np.float64)
        if not np.all(np.abs(got - mx) <= 1e-4 * np.abs(mx - mn) + 2e-7 * np.maximum(np.abs(mx), np.abs(mn))):
            V.append({"clause": "c11.ctor_roundtrip", "detail": f"Uniform.maxval: constructed with {mx}, accessor gives {got}"})
    if name == "MultivariateNormal":
        cov = np.asarray(a["covariance"], np.float32).astype(np.float64)
        got = np.asarray(m0.covariance, np.float64)
        n += 1
        # "up to rounding": the Cholesky factorisation is invariant under diagonal scaling, so each entry is
        # reproduced relative to sqrt(cov_ii cov_jj) (the correlation matrices drawn have condition number <= 20)
        sdv = np.sqrt(np.diag(cov))
        tol = 1e-4 * np.outer(sdv, sdv)
        if got.shape != cov.shape or not np.all(np.abs(got - cov) <= tol):
            bad = np.unravel_index(np.argmax(np.abs(got - cov) / tol), cov.shape) if got.shape == cov.shape else None
            V.append({"clause": "c11.ctor_roundtrip", "detail": f"MultivariateNormal.covariance: entry {bad} constructed with {cov[bad] if bad else None}, accessor gives {got[bad] if bad else got.shape} (variances {np.diag(cov)})"})
    if name == "VmapMixture":
        from flowjax.wrappers import unwrap

        w = np.asarray(a["weights"], np.float64)
        got = np.exp(np.asarray(unwrap(m0.log_normalized_weights), np.float64))
        n += 1
        if not np.all(np.abs(got - w / w.sum()) <= 1e-4 * (w / w.sum()) + 1e-30):
            V.append({"clause": "c11.ctor_roundtrip", "detail": f"VmapMixture weights: constructed {w / w.sum()}, accessor gives {got}"})
    return V, n


C11_RULES = [
    # key, predicate(value) -> ok, message
    ("scale_min", lambda v: v > 0, "a scale parameter is not strictly positive"),
    ("tri_diag_min", lambda v: v > 0, "a triangular diagonal entry is not strictly positive"),
    ("tri_other_absmax", lambda v: v == 0, "an entry of the masked triangle is non-zero"),
    ("df_min", lambda v: v > 0, "degrees of freedom not strictly positive"),
    ("mix_lse_absmax", lambda v: v <= 1e-4, "mixture weights are not normalised (|logsumexp| > 1e-4)"),
    ("spline_x_mindiff", lambda v: v > 0, "spline x knots are not strictly increasing"),
    ("spline_y_mindiff", lambda v: v > 0, "spline y knots are not strictly increasing"),
    ("spline_x_end_err", lambda v: v == 0, "spline x knots do not start/end exactly at the interval ends"),
    ("spline_y_end_err", lambda v: v == 0, "spline y knots do not start/end exactly at the interval ends"),
    ("spline_deriv_margin", lambda v: v >= 0, "a spline derivative is below min_derivative"),
    ("wn_norm_relerr_absmax", lambda v: v <= 1e-4, "a weight-normalised row's norm differs from its norm parameter (relative error > 1e-4)"),
    ("wn_scale_min", lambda v: v > 0, "a weight-normalisation norm parameter is not strictly positive"),
]


def oracle_c11(world, result):
    V, P = [], {}
    if result.get("exception"):
        return _crashed(result), P, "strict"
    rv, n_rt = _ctor_roundtrip(world, result["model0"])
    V.extend(rv)
    P["ctor_roundtrips"] = n_rt
    xs, cs = _probe_points(world, result)
    n_checked = n_vac = 0
    seen_keys = set()
    default_affine = world["model"]["kind"] == "flow" and world["model"].get("flow") in ("maf", "coupling") and world["model"].get("transformer") == "affine"
    for label, model, fin in _states(world, result, box=RAW_BOX):
        if V:
            break
        if not fin:
            n_vac += 1
            continue
        try:
            r = _run_check("c11", _chk_c11, model, xs, cs, world["key_seed"])
        except NotImplementedError:
            n_vac += 1
            continue
        # any other exception here is trouble in this checker (training already ran the model): it propagates
        # to the worker, which reports a HARNESS-ERROR, never a violation
        if "wn_inner_rownorm_min" in r and not float(r["wn_inner_rownorm_min"]) >= 1e-15:
            # a row whose raw norm underflows when squared in float32 (softplus(raw) < 1e-15, i.e. raw < -34 in a
            # single-entry row): the quotient w/||w|| is not representable; outside what float32 can decide
            P["vacuous_wn_rownorm_underflow"] = P.get("vacuous_wn_rownorm_underflow", 0) + 1
            n_vac += 1
            continue
        n_checked += 1
        P["wn_nodes_checked"] = P.get("wn_nodes_checked", 0) + int(r.get("n_wn_nodes", 0))
        seen_keys.update(r.keys())
        for key, ok, msg in C11_RULES:
            if key == "tri_diag_min" and "wn_min_positive_entry" in r and not float(r["wn_min_positive_entry"]) >= 1e-30:
                # a weight-normalised triangular matrix: its diagonal is g * softplus(raw) / ||row||, a product of two
                # softplus-positive numbers that is below float32 range here although each factor is inside the raw box
                P["vacuous_wn_product_underflow"] = P.get("vacuous_wn_product_underflow", 0) + 1
                continue
            if key in r and not ok(float(r[key])):
                V.append({"clause": "c11." + key, "detail": f"{label}: {msg} (value {float(r[key])!r})"})
        if default_affine and "scale_min" in r and float(r["scale_min"]) < 1e-2 * (1 - 1e-6):
            V.append({"clause": "c11.min_scale", "detail": f"{label}: a conditioner-built scale {float(r['scale_min'])} is below the documented min_scale 1e-2"})
        if "planar_margin" in r:
            pre_ok = (float(r.get("planar_wu_absmax", 0.0)) <= PLANAR_BOX and float(r.get("planar_wu_min", 0.0)) >= PLANAR_WU_MIN
                      and float(r.get("planar_wnorm_min", 1.0)) > 1e-30)
            if not pre_ok:
                P["vacuous_planar_precondition"] = P.get("vacuous_planar_precondition", 0) + 1
            elif not float(r["planar_margin"]) > 0:
                V.append({"clause": "c11.planar_invertible", "detail": f"{label}: planar layer has 1 + w.u_hat = {float(r['planar_margin'])} <= 0 (not invertible)"})
    P["states_checked"] = n_checked
    P["vacuous_states"] = n_vac
    for k in seen_keys:
        P["sig_" + k] = 1
    P["teleport_fired"] = int(any(s["fault"] == E.F_TELEPORT for s in result["steps"]))
    _rejection_clause(world, result, V, P)
    return V, P, "strict"


def _rejection_clause(world, result, V, P):
    """Invalid constructor arguments are rejected with an error whatever happened earlier in the
    process (failed constructions, rejected arguments, a fault-injected training run)."""
    rej = result.get("rejections")
    if rej is None:
        return
    done = result.get("history_done") or []
    P["rejection_panel_items"] = len(rej)
    P["history_ops"] = len(done)
    P["history_failed_calls"] = sum(1 for d in done if d[2].startswith("raised"))
    acc = sorted(n for n, s in rej.items() if s == "accepted")
    if acc:
        V.append({"clause": "c11.invalid_argument_accepted",
                  "detail": f"after the process history {[d[:2] for d in done]} and the training run, these invalid constructor arguments "
                            f"were accepted without an error: {acc}"})


# =========================================================================== C09
def oracle_c09(world, result):
    V, P = [], {}
    if result.get("exception"):
        return _crashed(result), P, "strict"
    xs, cs = _probe_points(world, result)
    n_checked = n_vac = 0
    pos_labels = _after_positive_teleport(world, result)
    for label, model, fin in _states(world, result):
        if not fin:
            n_vac += 1
            continue
        try:
            r = _run_check("c09", _chk_c09, model, xs, cs, world["key_seed"])
        except NotImplementedError:
            n_vac += 1
            continue
        n_checked += 1
        P["vacuous_nan_jacobian_entries"] = P.get("vacuous_nan_jacobian_entries", 0) + int(r.get("nan_entries", 0))
        P["maf_nodes"] = int(r["n_maf_nodes"])
        P["coupling_nodes"] = int(r["n_coupling_nodes"])
        if "maf_upper_absmax" in r and float(r["maf_upper_absmax"]) != 0.0:
            V.append({"clause": "c09.maf_output_depends_on_later_input", "detail": f"{label}: d y_i / d x_j = {float(r['maf_upper_absmax'])} for some j > i in a masked autoregressive layer"})
        if "maf_params_dep_absmax" in r and float(r["maf_params_dep_absmax"]) != 0.0:
            V.append({"clause": "c09.maf_params_depend_on_own_or_later_input", "detail": f"{label}: transformer parameters of output i depend on x_j, j >= i (|d| = {float(r['maf_params_dep_absmax'])})"})
        if "coupling_first_block_changed" in r and float(r["coupling_first_block_changed"]) != 0.0:
            V.append({"clause": "c09.coupling_first_block_changed", "detail": f"{label}: a coupling layer did not return its first block unchanged"})
        if "coupling_offdiag_absmax" in r and float(r["coupling_offdiag_absmax"]) != 0.0:
            V.append({"clause": "c09.coupling_cross_dependency", "detail": f"{label}: a transformed coordinate depends on another transformed coordinate (|d| = {float(r['coupling_offdiag_absmax'])})"})
        P["bnaf_nodes"] = int(r.get("n_bnaf_nodes", 0))
        if "bnaf_upper_absmax" in r:
            if float(r["bnaf_upper_absmax"]) != 0.0:
                V.append({"clause": "c09.bnaf_output_depends_on_later_input", "detail": f"{label}: d y_i / d x_j = {float(r['bnaf_upper_absmax'])} for some j > i in a block autoregressive network"})
            if float(r["bnaf_neg_diag"]) != 0.0:
                V.append({"clause": "c09.bnaf_diagonal_not_positive", "detail": f"{label}: a diagonal Jacobian entry d y_i / d x_i of a block autoregressive network is negative"})
            # 'strictly positive' is decidable in float32 only while the product of diagonal-block weights and activation
            # slopes over the layers stays representable: every diagonal-block weight >= 1e-6, unbounded activation
            strict_ok = float(r.get("bnaf_diagw_min", 0.0)) >= 1e-6 and world["model"].get("activation") != "tanh"
            if strict_ok:
                P["bnaf_strict_diag_states"] = P.get("bnaf_strict_diag_states", 0) + 1
                if float(r["bnaf_nonpos_diag"]) != 0.0:
                    V.append({"clause": "c09.bnaf_diagonal_not_positive", "detail": f"{label}: a diagonal Jacobian entry of a block autoregressive network is zero although every diagonal-block weight is >= {float(r['bnaf_diagw_min']):.3g}"})
            else:
                P["vacuous_bnaf_diag_underflow"] = P.get("vacuous_bnaf_diag_underflow", 0) + 1
        if label in pos_labels and not V:
            rp = _run_check("c09pos", _chk_c09_pos, model, xs, cs, world["key_seed"])
            P["all_positive_states_checked"] = P.get("all_positive_states_checked", 0) + 1
            m = world["model"]
            relu_ok = True  # the zoo's conditioners use the default relu activation
            if "maf_cond_dep_min" in rp and relu_ok and not float(rp["maf_cond_dep_min"]) > 0:
                V.append({"clause": "c09.maf_condition_dependency_missing", "detail": f"{label}: with all-positive weights some transformer parameter does not depend on a condition coordinate (min derivative {float(rp['maf_cond_dep_min'])})"})
            if "maf_permitted_x_dep_min" in rp and m.get("width", 0) >= m.get("dim", 99) and not float(rp["maf_permitted_x_dep_min"]) > 0:
                V.append({"clause": "c09.maf_permitted_dependency_missing", "detail": f"{label}: hidden width {m.get('width')} >= dim {m.get('dim')} and all-positive weights, yet the parameters of some output i do not depend on some x_j, j < i (min derivative {float(rp['maf_permitted_x_dep_min'])})"})
            if m.get("transformer") in ("affine", "loc", "scale"):
                # y = x * scale(.) + loc(.) at positive x: strictly increasing in everything the conditioner may see
                for k, what in (("layer_transform_cond_dep_min", "a condition coordinate"), ("layer_transform_block_dep_min", "a first-block coordinate")):
                    if k in rp and not float(rp[k]) > 0:
                        V.append({"clause": "c09.transform_dependency_missing", "detail": f"{label}: with all-positive weights and an affine-type transformer, a transformed output of layer.transform does not depend on {what} (min derivative {float(rp[k])})"})
            if m.get("activation") != "tanh":
                for k, what in (("bnaf_lower_dep_min", "an earlier input x_j, j < i"), ("bnaf_cond_dep_min", "a condition coordinate")):
                    if k == "bnaf_cond_dep_min" and m.get("depth", 1) == 0:
                        continue  # no hidden layer for the condition to enter (the statement promises nothing there)
                    if k in rp and not float(rp[k]) > 0:
                        V.append({"clause": "c09.bnaf_dependency_missing", "detail": f"{label}: with all-positive weights an output of a block autoregressive network does not depend on {what} (min derivative {float(rp[k])})"})
            for k, what in (("coupling_block_dep_min", "a first-block coordinate"), ("coupling_cond_dep_min", "a condition coordinate")):
                if k in rp and not float(rp[k]) > 0:
                    V.append({"clause": "c09.coupling_dependency_missing", "detail": f"{label}: with all-positive weights a transformer parameter of a coupling layer does not depend on {what} (min derivative {float(rp[k])})"})
        if V:
            break
    P["states_checked"] = n_checked
    P["vacuous_states"] = n_vac
    P["enumerated_block_runs"] = int(world.get("enumerated") is not None)
    P["teleport_fired"] = int(any(s["fault"] == E.F_TELEPORT for s in result["steps"]))
    P["sig_cond"] = int(bool(world["model"].get("cond_dim")))
    P["prelude_models"] = len(world.get("prelude", []))
    P["prelude_same_sizes"] = int(any(p.get("width") == world["model"].get("width") and p.get("depth") == world["model"].get("depth") and p.get("flow") == "maf" and p.get("dim") != world["model"].get("dim") for p in world.get("prelude", [])))
    return V, P, "strict"


# =========================================================================== C18
def oracle_c18(world, result):
    V, P = [], {}
    if result.get("exception"):
        return _crashed(result), P, "strict"
    steps, hist, le = result["steps"], result["history"], result["loss_events"]
    P["fault_rows"] = len(result.get("fault_rows", []))
    P["prelude_sibling_used"] = int(bool(result.get("prelude_used")))
    P["init_perturbed"] = int(bool(world.get("init_perturb")))
    P["fault_row_batches"] = result.get("fault_rows_seen", 0)
    # pair each UPDATE with the LOSS event immediately before it (the gradient call)
    pairs = []
    for j, (kind, i) in enumerate(hist):
        if kind == "U" and j > 0 and hist[j - 1][0] == "L":
            pairs.append((hist[j - 1][1], i))
    grad_loss_idx = {li for li, _ in pairs}
    n_poison_checked = 0
    opt_state_clean = True  # no earlier step handed non-finite gradients to the (possibly stateful) optimiser
    for li, ui in pairs:
        s = steps[ui]
        loss = le[li]["value"]
        p_fin = E.leaves_finite(s["params"])
        g_fin = E.leaves_finite(s["grads"])
        was_clean, opt_state_clean = opt_state_clean, opt_state_clean and g_fin
        if p_fin and np.isnan(loss):
            V.append({"clause": "c18.loss_nan", "detail": f"step {s['t']}: parameters finite but the batch loss is NaN (fault row in batch: {le[li]['has_fault_row']})"})
            break
        exploded = any(a.size and float(np.max(np.abs(a))) > EXPLODED_PARAM for a in s["params"])
        if p_fin and np.isfinite(loss) and exploded:
            # training has already diverged (a parameter outside the +-50 raw box, reached through an enormous but finite
            # gradient): the property quantifies over parameters 'at initialisation and perturbed', and in such states
            # non-finite gradients are float32 cancellation/overflow (e.g. the spline inverse's quadratic with knot
            # derivatives of 1e8), not the unselected-branch NaNs the property is about
            P["vacuous_exploded_params"] = P.get("vacuous_exploded_params", 0) + 1
            continue
        overflow_evidence = any(np.any(np.isinf(g)) or (np.isfinite(g).any() and float(np.nanmax(np.abs(np.where(np.isfinite(g), g, 0.0)))) > 1e30)
                                for g in s["grads"] if g.size)
        if p_fin and np.isfinite(loss) and abs(loss) > HUGE_LOSS and overflow_evidence:
            # astronomically large loss AND gradient entries that are +-inf or beyond 1e30: float32 range is exhausted, a NaN
            # next to them is inf - inf, not a branch-selection NaN
            P["vacuous_huge_loss_overflow"] = P.get("vacuous_huge_loss_overflow", 0) + 1
            continue
        if p_fin and np.isfinite(loss) and abs(loss) > HUGE_LOSS and not any(np.any(np.isnan(g)) for g in s["grads"]):
            # astronomically large but finite loss whose gradient leaves are finite or +-inf: the true
            # gradient may simply exceed float32 range; overflow is not the branch-selection defect the
            # property is about. (NaN gradient leaves are still judged below.)
            P["vacuous_huge_loss"] = P.get("vacuous_huge_loss", 0) + 1
            continue
        if p_fin and np.isfinite(loss):
            n_poison_checked += 1
            if le[li]["has_fault_row"]:
                P["finite_loss_with_fault_row"] = P.get("finite_loss_with_fault_row", 0) + 1
            if not g_fin:
                bad = [k for k, g in enumerate(s["grads"]) if not np.all(np.isfinite(g))]
                V.append({"clause": "c18.finite_loss_nonfinite_grad", "detail": f"step {s['t']}: batch loss {loss} is finite but {len(bad)}/{len(s['grads'])} gradient leaves are non-finite (fault row in batch: {le[li]['has_fault_row']}; rows: {result.get('fault_rows')})"})
                break
            # the step after a finite-loss, finite-gradient step starts from finite parameters
            # (only when every earlier step also had finite gradients: a stateful optimiser that was fed NaN
            # gradients by an earlier infinite-loss batch may legitimately emit NaN updates from then on)
            if ui + 1 < len(steps) and not s["fault"] and was_clean and not E.leaves_finite(steps[ui + 1]["params"]):
                V.append({"clause": "c18.step_poisoned", "detail": f"step {s['t']}: finite parameters, finite loss {loss}, finite gradients, yet the next parameters are non-finite"})
                break
        if p_fin and np.isposinf(loss):
            P["inf_loss_batches"] = P.get("inf_loss_batches", 0) + 1
    # validation calls: parameters are those the next gradient step starts from
    for j, (kind, i) in enumerate(hist):
        if kind != "L" or i in grad_loss_idx:
            continue
        nxt = next((ii for kk, ii in hist[j + 1 :] if kk == "U"), None)
        if nxt is None:
            continue
        if E.leaves_finite(steps[nxt]["params"]) and np.isnan(le[i]["value"]):
            V.append({"clause": "c18.loss_nan", "detail": f"validation loss is NaN at finite parameters (fault row in batch: {le[i]['has_fault_row']})"})
            break
    P["poison_checks"] = n_poison_checked
    P["named_sweep_runs"] = int(world.get("sweep") is not None)
    P["enumerated_block_runs"] = int(world.get("enumerated") is not None)
    P["sig_fault_hit"] = int(P.get("finite_loss_with_fault_row", 0) > 0)
    # end-to-end: if no batch loss was ever non-finite, nothing may be non-finite at the end
    if all(np.isfinite(e["value"]) and abs(e["value"]) <= HUGE_LOSS for e in le) and steps:
        import jax

        rm = result["ret_model"]
        leaves = [np.asarray(a) for a in jax.tree_util.tree_leaves(rm) if hasattr(a, "dtype")]
        if not E.leaves_finite(leaves):
            V.append({"clause": "c18.run_poisoned", "detail": "every recorded batch loss was finite, yet the returned parameters are non-finite"})
        P["clean_run"] = 1
    return V, P, "strict"
