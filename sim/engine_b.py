"""Engine B — real-model training simulation (C09, C11, C12, C18).

Real flowjax models, real losses, real optax optimisers and the real training loops run
unmodified. The simulator owns:

* the ``optimizer`` seam: an *observing, fault-injecting* wrapper around a real optax optimiser.
  Each ``update`` ships the step's pre-update parameters and gradients to the host (ordered
  callback) and applies the fault scheduled for that step (gradient NaN/inf/x1e6, teleport of
  every offered leaf into the raw-parameter box, zero update, sign flip). The schedule is read
  by ``init`` (called eagerly by the loops) into ``opt_state`` arrays, so one optimiser object
  serves every run of a bucket without recompilation.
* the ``loss_fn`` seam: a recording wrapper around flowjax's own loss object (value and batch
  of every call, in program order).
* ``key``, ``x``, ``condition``: generated from the world (with injected fault rows for C18).
* ``tqdm`` module attributes (progress stream to memory).

``run_world(world) -> result`` is a pure function of the world.
"""

from __future__ import annotations

import hashlib
import io
from functools import partial

import numpy as np

from sim import zoo

F_NONE, F_GRAD_NAN, F_GRAD_INF, F_GRAD_HUGE, F_TELEPORT, F_ZERO, F_SIGNFLIP, F_TELEPORT_POS = range(8)
FAULT_NAMES = {
    F_GRAD_NAN: "grad_nan",
    F_GRAD_INF: "grad_inf",
    F_GRAD_HUGE: "grad_huge",
    F_TELEPORT: "opt_teleport",
    F_ZERO: "opt_zero",
    F_SIGNFLIP: "opt_signflip",
    F_TELEPORT_POS: "opt_teleport_positive",
}
FAULT_CODES = {v: k for k, v in FAULT_NAMES.items()}
NSCHED = 4

_LOG: list = []
_CURRENT = {"schedule": None}


# --------------------------------------------------------------------------- host callbacks
def _rec_update(n_p, tid, t, kind, *leaves):
    ps = [np.array(a, copy=True) for a in leaves[:n_p]]
    gs = [np.array(a, copy=True) for a in leaves[n_p:]]
    _LOG.append(("UPDATE", int(t), int(kind), ps, gs, tid))


def _rec_loss(value, x):
    _LOG.append(("LOSS", float(value), None if x is None else np.array(x, copy=True)))


def _rec_loss_nox(value):
    _rec_loss(value, None)


# --------------------------------------------------------------------------- optimiser seam
_OPT_CACHE = {}
_TREEDEFS = []  # one entry per traced ``update`` (the callback closure carries its index)


def inner_optimizer(name, lr):
    import optax

    if name == "sgd":
        return optax.sgd(lr)
    if name == "adam":
        return optax.adam(lr)
    if name == "adamw":
        return optax.adamw(lr, weight_decay=0.05)
    if name == "rmsprop":
        return optax.rmsprop(lr)
    if name == "clip_adam":
        return optax.chain(optax.clip_by_global_norm(1.0), optax.adam(lr))
    raise KeyError(name)


def observing_optimizer(name, lr):
    """One shared object per (name, lr) so jitted ``step`` caches hit across runs."""
    import jax
    import jax.numpy as jnp
    import jax.random as jr
    import optax
    from jax.experimental import io_callback
    from jax.lax import stop_gradient as sg

    k = (name, lr)
    if k in _OPT_CACHE:
        return _OPT_CACHE[k]
    inner = inner_optimizer(name, lr)

    def init(params):
        s = _CURRENT["schedule"]
        return {
            "inner": inner.init(params),
            "t": jnp.zeros((), jnp.int32),
            "s_step": jnp.asarray(s["step"], jnp.int32),
            "s_kind": jnp.asarray(s["kind"], jnp.int32),
            "s_seed": jnp.asarray(s["seed"], jnp.int32),
            "s_scale": jnp.asarray(s["scale"], jnp.float32),
        }

    def update(grads, state, params=None):
        t = state["t"]
        hit = state["s_step"] == t
        kind = jnp.max(jnp.where(hit, state["s_kind"], 0))
        seed = jnp.max(jnp.where(hit, state["s_seed"], 0))
        scale = jnp.max(jnp.where(hit, state["s_scale"], 0.0))
        p_leaves, treedef = jax.tree_util.tree_flatten(params)
        g_leaves = jax.tree_util.tree_leaves(grads)
        _TREEDEFS.append(treedef)
        io_callback(
            partial(_rec_update, len(p_leaves), len(_TREEDEFS) - 1),
            None,
            t,
            kind,
            *[sg(a) for a in p_leaves],
            *[sg(a) for a in g_leaves],
            ordered=True,
        )

        def gfault(g):
            g = jnp.where(kind == F_GRAD_NAN, jnp.nan, g)
            g = jnp.where(kind == F_GRAD_INF, jnp.inf, g)
            return jnp.where(kind == F_GRAD_HUGE, g * 1e6, g)

        grads2 = jax.tree_util.tree_map(gfault, grads)
        updates, inner_state = inner.update(grads2, state["inner"], params)
        base = jr.fold_in(jr.PRNGKey(17), seed)
        u_leaves, u_def = jax.tree_util.tree_flatten(updates)
        out = []
        for i, (p, u) in enumerate(zip(p_leaves, u_leaves, strict=True)):
            target = jr.uniform(jr.fold_in(base, i), p.shape, p.dtype, -1.0, 1.0) * scale.astype(p.dtype)
            u = jnp.where(kind == F_TELEPORT, target - p, u)
            # the all-positive assignment: every offered leaf in [0.25, 1] (makes every permitted path visible)
            pos = jr.uniform(jr.fold_in(base, 1000 + i), p.shape, p.dtype, 0.25, 1.0)
            u = jnp.where(kind == F_TELEPORT_POS, pos - p, u)
            u = jnp.where(kind == F_ZERO, jnp.zeros_like(u), u)
            u = jnp.where(kind == F_SIGNFLIP, -u, u)
            out.append(u)
        updates = jax.tree_util.tree_unflatten(u_def, out)
        new_state = dict(state)
        new_state["inner"] = inner_state
        new_state["t"] = t + 1
        return updates, new_state

    opt = optax.GradientTransformation(init, update)
    _OPT_CACHE[k] = opt
    return opt


def schedule_arrays(faults):
    s = {"step": [-1] * NSCHED, "kind": [0] * NSCHED, "seed": [0] * NSCHED, "scale": [0.0] * NSCHED}
    for i, f in enumerate(faults[:NSCHED]):
        s["step"][i] = int(f["step"])
        s["kind"][i] = FAULT_CODES[f["kind"]]
        s["seed"][i] = int(f.get("seed", 0)) % (2**31 - 1)
        s["scale"][i] = float(f.get("scale", 0.0))
    return s


# --------------------------------------------------------------------------- loss seam
class RecordingLoss:
    """Wraps a flowjax loss object; records value (and batch) of every call in order."""

    def __init__(self, inner, with_x):
        self.inner = inner
        self.with_x = with_x

    def __call__(self, params, static, *args, **kwargs):
        from jax.experimental import io_callback
        from jax.lax import stop_gradient as sg

        v = self.inner(params, static, *args, **kwargs)
        if self.with_x and args and hasattr(args[0], "ndim") and args[0].ndim >= 1 and not _is_key(args[0]):
            io_callback(_rec_loss, None, sg(v), sg(args[0]), ordered=True)
        else:
            io_callback(_rec_loss_nox, None, sg(v), ordered=True)
        return v


def _is_key(a):
    import jax
    import jax.numpy as jnp

    return jnp.issubdtype(a.dtype, jax.dtypes.prng_key) or (a.dtype == jnp.uint32 and a.shape == (2,))


_LOSS_CACHE = {}


def get_loss(world, model_shape):
    """Shared loss objects (a fresh object per call would recompile ``step`` every run)."""
    from flowjax.distributions import Normal, StandardNormal
    from flowjax.train import losses as L

    kind = world["loss"]
    if kind == "mle":
        key = ("mle",)
        if key not in _LOSS_CACHE:
            _LOSS_CACHE[key] = RecordingLoss(L.MaximumLikelihoodLoss(), with_x=True)
        return _LOSS_CACHE[key]
    if kind == "contrastive":
        key = ("contrastive", model_shape)
        if key not in _LOSS_CACHE:
            import jax.numpy as jnp

            prior = Normal(jnp.zeros(model_shape), 3.0 * jnp.ones(model_shape))
            _LOSS_CACHE[key] = RecordingLoss(L.ContrastiveLoss(prior, 2), with_x=True)
        return _LOSS_CACHE[key]
    stl = kind == "elbo_stl"
    key = ("elbo", model_shape, stl)
    if key not in _LOSS_CACHE:
        target = StandardNormal(model_shape)
        _LOSS_CACHE[key] = RecordingLoss(L.ElboLoss(target.log_prob, 6, stick_the_landing=stl), with_x=False)
    return _LOSS_CACHE[key]


# --------------------------------------------------------------------------- freezing (C12)
def _get_path(tree, path):
    import jax.tree_util as jtu

    cur = tree
    for k in path:
        if isinstance(k, jtu.GetAttrKey):
            cur = getattr(cur, k.name)
        elif isinstance(k, jtu.SequenceKey):
            cur = cur[k.idx]
        elif isinstance(k, jtu.DictKey):
            cur = cur[k.key]
        elif isinstance(k, jtu.FlattenedIndexKey):
            raise KeyError("flattened index")
        else:
            raise KeyError(k)
    return cur


def candidate_nodes(model):
    """All distinct tree positions (as key paths) that contain >=1 inexact array leaf and do
    not sit inside an existing NonTrainable; in deterministic (flatten) order."""
    import equinox as eqx
    import jax.tree_util as jtu
    from flowjax.wrappers import NonTrainable

    leaves = jtu.tree_flatten_with_path(model, is_leaf=lambda n: isinstance(n, NonTrainable))[0]
    seen, out = set(), []
    for path, leaf in leaves:
        if isinstance(leaf, NonTrainable) or not eqx.is_inexact_array(leaf):
            continue
        for j in range(1, len(path) + 1):
            pre = path[:j]
            ks = jtu.keystr(pre)
            if ks in seen:
                continue
            try:
                _get_path(model, pre)
            except Exception:  # noqa: BLE001
                break
            seen.add(ks)
            out.append(pre)
    return out


def _n_trainable_under(model, path):
    import equinox as eqx
    import jax

    node = _get_path(model, path)
    return len(frozen_and_int_leaves(node)[2])


def apply_freeze(model, plan, keep_some=False, hint=None):
    """plan: list of {"node": index into candidate_nodes(model) (mod len), "mode": "NT"|"fn"}.
    Applied sequentially; a node already inside a NonTrainable is skipped. With ``keep_some``
    a candidate that would freeze every remaining trainable leaf is replaced by the next
    candidate (in flatten order) that does not."""
    import equinox as eqx
    from flowjax.wrappers import NonTrainable, non_trainable

    applied = []
    for item in plan:
        cands = candidate_nodes(model)
        if not cands:
            break
        j = item["node"] % len(cands)
        if hint is not None and not applied:
            import jax.tree_util as jtu

            want = f".bijection.bijections[{hint}]"
            hits = [k for k, c in enumerate(cands) if jtu.keystr(c) == want]
            if hits:
                j = hits[0]
        elif keep_some:
            total = len(frozen_and_int_leaves(model)[2])
            for k in range(len(cands)):
                if _n_trainable_under(model, cands[(j + k) % len(cands)]) < total:
                    j = (j + k) % len(cands)
                    break
        path = cands[j]
        fn = NonTrainable if item["mode"] == "NT" else non_trainable
        try:
            import jax.tree_util as jtu

            # the user's INTENT: every inexact array under the node is to be frozen. Recorded as
            # indices among the ARRAY leaves in flatten order (wrappers and chain-merging add or
            # remove node levels and python-scalar leaves, never array leaves, so order is stable)
            pre = jtu.keystr(path)
            arrs = [(p, leaf) for p, leaf in jtu.tree_flatten_with_path(model)[0] if eqx.is_array(leaf)]
            idx = [i for i, (p, leaf) in enumerate(arrs) if eqx.is_inexact_array(leaf) and jtu.keystr(p).startswith(pre)]
            model = eqx.tree_at(lambda m, p=path: _get_path(m, p), model, replace_fn=fn)
            applied.append({"path": pre, "mode": item["mode"], "leaf_idx": idx})
        except Exception:  # noqa: BLE001 - un-addressable node: skip
            continue
    return model, applied


def frozen_and_int_leaves(model):
    """Key-path strings of (a) every array leaf under a NonTrainable node, (b) every other
    non-inexact array leaf; plus the count of trainable inexact leaves."""
    import equinox as eqx
    import jax.tree_util as jtu
    from flowjax.wrappers import NonTrainable

    frozen, ints, trainable = [], [], []
    top = jtu.tree_flatten_with_path(model, is_leaf=lambda n: isinstance(n, NonTrainable))[0]
    for path, node in top:
        if isinstance(node, NonTrainable):
            for p2, leaf in jtu.tree_flatten_with_path(node)[0]:
                if eqx.is_array(leaf):
                    frozen.append(jtu.keystr(path + p2))
        elif eqx.is_inexact_array(node):
            trainable.append(jtu.keystr(path))
        elif eqx.is_array(node):
            ints.append(jtu.keystr(path))
    return frozen, ints, trainable


# --------------------------------------------------------------------------- data
_SAMPLE_JIT = {}


def _sample(model, key, n, cond):
    import equinox as eqx

    if "f" not in _SAMPLE_JIT:
        def f(model, key, cond, n):
            return model.sample(key, (n,) if cond is None else (), cond)

        _SAMPLE_JIT["f"] = eqx.filter_jit(f)
    return _SAMPLE_JIT["f"](model, key, cond, n)


def _first_spline(model_plain):
    """(interval, x_pos, y_pos) of the first rational-quadratic spline in the model, if any."""
    import jax
    from flowjax.bijections import RationalQuadraticSpline
    from flowjax.wrappers import unwrap

    try:
        um = unwrap(model_plain)
    except Exception:  # noqa: BLE001
        return None
    nodes = [n for n in jax.tree_util.tree_leaves(um, is_leaf=lambda n: isinstance(n, RationalQuadraticSpline)) if isinstance(n, RationalQuadraticSpline)]
    if not nodes:
        return None
    n0 = nodes[0]
    return tuple(float(v) for v in n0.interval), np.asarray(n0.x_pos), np.asarray(n0.y_pos)


def _spec_interval(spec):
    if spec.get("kind") == "tri_spline":
        return [-1.0, 1.0]
    if "interval" in spec:
        return [float(v) for v in spec["interval"]]
    for it in spec.get("items", []):
        if it[0] in ("VSpline", "InvVSpline"):
            return [float(v) for v in it[2]]
    return [-4.0, 4.0]


def _spec_max_val(spec):
    if spec.get("kind") == "tri_spline":
        return float(spec.get("tanh_max_val", 3.0))
    if spec.get("kind") == "bnaf":
        return {None: 3.0, "leaky1": 1.0, "leaky8": 8.0}.get(spec.get("activation"), 3.0)
    for it in spec.get("items", []):
        if it[0] in ("LeakyTanh", "InvLeakyTanh"):
            return float(it[1])
    return 3.0


def _support_edges(model_plain, spec):
    """Per-coordinate support boundaries of a named family, read from the real model: (lo, hi) arrays or None."""
    if spec.get("kind") != "named":
        return None
    name = spec.get("name")
    try:
        if name == "Uniform":
            return np.asarray(model_plain.minval, np.float32).reshape(-1), np.asarray(model_plain.maxval, np.float32).reshape(-1)
        if name in ("Exponential", "LogNormal"):
            d = max(1, int(np.prod(model_plain.shape)))
            return np.zeros(d, np.float32), np.full(d, np.float32(1e2))
    except Exception:  # noqa: BLE001
        return None
    return None


def resolve_symbol(sym, coord, knot_index, spec, spline, edges=None):
    """Boundary-directed value for one coordinate of a fault row (float32)."""
    import jax.numpy as jnp

    f32 = np.float32
    lo, hi = _spec_interval(spec)
    if spline is not None:
        lo, hi = spline[0]
    if edges is not None:
        lo, hi = float(edges[0][coord % len(edges[0])]), float(edges[1][coord % len(edges[1])])
    mv = _spec_max_val(spec)
    deep = spec["kind"] in ("flow", "scan_vspline") or (spec["kind"] in ("bnaf", "tri_spline") and spec.get("mode") != "single")
    nudge = 0
    if sym[-1] in "+-" and sym[:-1] in ("lo", "hi", "knot", "max_val", "tanh_max_val", "1"):
        nudge = 1 if sym[-1] == "+" else -1
        sym = sym[:-1]
    table = {
        "lo": lo, "hi": hi, "out_lo": lo - 1.5, "out_hi": hi + 2.25, "mid": (lo + hi) / 2,
        "max_val": mv, "-max_val": -mv, "1": 1.0, "-1": -1.0, "0": 0.0, "-0": -0.0,
        "big": 1e2, "-big": -1e2, "huge": 1e2 if deep else 1e4, "-huge": -(1e2 if deep else 1e4), "tiny": 1e-30,
    }
    if sym in table:
        v = f32(table[sym])
    elif sym in ("tanh_max_val", "-tanh_max_val"):
        v = f32(np.asarray(jnp.tanh(jnp.float32(mv))))
        if sym.startswith("-"):
            v = -v
    elif sym in ("knot", "yknot"):
        if spline is None:
            v = f32(lo + (hi - lo) * ((knot_index % 4) + 0.5) / 4)
        else:
            arr = spline[1] if sym == "knot" else spline[2]
            arr = arr.reshape(-1, arr.shape[-1])
            rowi = arr[coord % arr.shape[0]]
            v = f32(rowi[knot_index % len(rowi)])
    else:
        v = f32(0.0)
    if nudge:
        v = np.nextafter(v, f32(np.inf) if nudge > 0 else f32(-np.inf), dtype=np.float32)
    return v


def make_data(world, model_plain):
    """Training data. Default: samples of the *initial* model (always inside its support),
    conditions standard normal; then (C18) fault rows overwrite coordinates at chosen rows."""
    import jax.numpy as jnp
    import jax.random as jr

    d = world["data"]
    n = d["n"]
    shape, cond_dim = zoo.model_dims(world["model"])
    r = np.random.default_rng(d["seed"] % (2**32))
    cond = None
    if cond_dim:
        cond = r.normal(size=(n, cond_dim)).astype(np.float32)
    x = None
    if d.get("source", "model") == "model" and not zoo.numeric_inverse_only(world["model"]):
        try:
            x = _sample(model_plain, jr.PRNGKey(d["seed"] % (2**31)), n, None if cond is None else jnp.asarray(cond))
            x = np.asarray(x, dtype=np.float32)
            if x.shape != (n,) + shape or not np.all(np.isfinite(x)):
                x = None
        except Exception:  # noqa: BLE001 - e.g. tanh-planar has no sampler: fall back to normal rows
            x = None
    if x is None:
        x = (r.normal(size=(n,) + shape) * d.get("scale", 1.0) + d.get("shift", 0.0)).astype(np.float32)
    x = np.array(x, copy=True)
    fault_rows = []
    if d.get("fault_rows"):
        spline = _first_spline(model_plain)
        edges = _support_edges(model_plain, world["model"])
        for fr in d["fault_rows"]:
            pos = fr["pos"] % n
            row = x[pos].reshape(-1).copy()
            for cj, sym in zip(fr["coords"], fr["symbols"], strict=True):
                cj = cj % max(1, row.size)
                row[cj] = resolve_symbol(sym, cj, fr.get("knot_index", 0), world["model"], spline, edges)
            x[pos] = row.reshape(shape)
            fault_rows.append(x[pos].copy())
    return x, cond, fault_rows


# --------------------------------------------------------------------------- run
class _Tqdm:
    def __init__(self, on):
        self.on = on
        self.saved = []
        self.stream = io.StringIO()

    def __enter__(self):
        if self.on:
            import flowjax.train.data_fit as df
            import flowjax.train.variational_fit as vf
            from tqdm import tqdm as real

            fake = partial(real, file=self.stream, mininterval=0)
            for mod in (df, vf):
                if hasattr(mod, "tqdm"):
                    self.saved.append((mod, mod.tqdm))
                    mod.tqdm = fake
        return self

    def __exit__(self, *a):
        for mod, v in self.saved:
            mod.tqdm = v
        return False


_STATIC_CACHE = {}


def _share_static(spec, model):
    """Re-use the static (non-array) part of the first model built for a structure.

    flowjax's coupling / autoregressive layers hold a fresh closure per construction
    (``transformer_constructor``), which makes every build a jit-cache miss. The closure only
    captures the transformer *prototype* (identical for every seed), so sharing the static part
    across runs of a bucket changes no value — it only lets compiled programs be re-used."""
    import equinox as eqx
    import jax

    from sim.core import canon_json

    skey = canon_json({k: v for k, v in spec.items() if k not in ("seed", "args")})
    arrays, static = eqx.partition(model, eqx.is_array)
    if skey in _STATIC_CACHE:
        cached = _STATIC_CACHE[skey]
        if jax.tree_util.tree_structure(cached) == jax.tree_util.tree_structure(static) or True:
            try:
                return eqx.combine(arrays, cached)
            except Exception:  # noqa: BLE001
                pass
    _STATIC_CACHE[skey] = static
    return model


def apply_post_ops(model, ops):
    """Operations a user may apply to an already-frozen model before training (a multi-step
    history: freeze -> restructure -> train). Each keeps array-leaf order, so the intended-frozen
    leaf indices stay valid."""
    import equinox as eqx
    from flowjax.bijections import Chain

    done = []
    for op in ops or []:
        try:
            if op == "merge_chains" and isinstance(getattr(model, "bijection", None), Chain):
                model = eqx.tree_at(lambda m: m.bijection, model, model.bijection.merge_chains())
                done.append(op)
            elif op == "merge_transforms" and hasattr(model, "merge_transforms"):
                model = model.merge_transforms()
                done.append(op)
            elif op in ("frozen_leaf_float64", "frozen_leaf_bf16"):
                # a frozen leaf that is not a default-precision jax array (a float64 numpy checkpoint,
                # a reduced-precision array): it must come back bit-identical like any other
                import jax.tree_util as jtu
                from flowjax.wrappers import NonTrainable

                target = None
                for path, node in jtu.tree_flatten_with_path(model, is_leaf=lambda n: isinstance(n, NonTrainable))[0]:
                    if isinstance(node, NonTrainable):
                        for p2, leaf in jtu.tree_flatten_with_path(node)[0]:
                            if eqx.is_inexact_array(leaf) and np.asarray(leaf).size > 0:
                                target = path + p2
                                break
                    if target is not None:
                        break
                if target is not None:
                    old = np.asarray(_get_path(model, target))
                    if op == "frozen_leaf_float64":
                        new = old.astype(np.float64) * (1.0 + 1e-10) + 1e-12
                    else:
                        import jax.numpy as jnp

                        new = jnp.asarray(old, jnp.bfloat16)
                    model = eqx.tree_at(lambda m, p=target: _get_path(m, p), model, new)
                    done.append(op)
        except Exception:  # noqa: BLE001 - an operation that does not apply to this model is skipped
            continue
    return model, done


def perturb_initial(model, spec):
    """'Parameters at initialisation and perturbed': add seeded uniform noise to every trainable
    raw leaf of the freshly built model (host-side numpy; deterministic)."""
    import equinox as eqx
    import jax
    import jax.numpy as jnp
    from flowjax.wrappers import NonTrainable

    r = np.random.default_rng(int(spec["seed"]) % (2**32))
    s = float(spec["scale"])
    params, static = eqx.partition(model, eqx.is_inexact_array, is_leaf=lambda n: isinstance(n, NonTrainable))
    leaves, td = jax.tree_util.tree_flatten(params)
    new = [jnp.asarray(np.asarray(a) + r.uniform(-s, s, size=np.shape(a)).astype(np.asarray(a).dtype)) for a in leaves]
    return eqx.combine(jax.tree_util.tree_unflatten(td, new), static)


def build_world_model(world):
    model_plain = _share_static(world["model"], zoo.build(world["model"]))
    if world.get("init_perturb"):
        model_plain = perturb_initial(model_plain, world["init_perturb"])
    model0, applied = apply_freeze(model_plain, world.get("freeze", []), keep_some=world.get("freeze_keep_some", False),
                                   hint=world.get("freeze_path_hint"))
    if world.get("post_ops"):
        n0 = _leaf_sig(model0)
        before = array_leaves(model0)
        model0, done = apply_post_ops(model0, world["post_ops"])
        if done and _leaf_sig(model0) != n0:
            # the operation changed the array leaves themselves: follow each intended-frozen array
            # by its bytes, and only when that is unambiguous before and after (otherwise drop it)
            after = array_leaves(model0)
            key = lambda a: (a.shape, str(a.dtype), np.asarray(a).tobytes())  # noqa: E731
            cnt_b, cnt_a = {}, {}
            for a in before:
                cnt_b[key(a)] = cnt_b.get(key(a), 0) + 1
            for a in after:
                cnt_a[key(a)] = cnt_a.get(key(a), 0) + 1
            for f in applied:
                new_idx = []
                for i in f["leaf_idx"]:
                    k = key(before[i])
                    if cnt_b.get(k) == 1 and cnt_a.get(k) == 1:
                        new_idx.append(next(j for j, a in enumerate(after) if key(a) == k))
                f["leaf_idx"] = new_idx
                f["leaf_idx_rematched"] = True
        for f in applied:
            f["post_ops"] = done
    return model_plain, model0, applied


def _leaf_sig(model):
    import jax

    return [(a.shape, str(a.dtype)) for a in array_leaves(model)]


def array_leaves(model):
    import equinox as eqx
    import jax

    return [a for a in jax.tree_util.tree_leaves(model) if eqx.is_array(a)]


def _prelude_train(world, pt):
    """History before the run under test: the *same* model with a *different* freeze plan (mostly:
    nothing frozen) is trained briefly in the same process and dropped. Exposes state keyed on the
    outer structure of a model (caches of partition specs, of conditioner constructors, ...)."""
    import jax.random as jr

    plain = _share_static(world["model"], zoo.build(world["model"]))
    alt, _ = apply_freeze(plain, pt.get("freeze", []), keep_some=True)
    shape, _cd = zoo.model_dims(world["model"])
    opt = inner_optimizer("adamw", 1e-3)
    loss = get_loss(world, shape).inner
    key = jr.PRNGKey(int(pt.get("seed", 0)))
    if world["loop"] == "data":
        from flowjax.train import fit_to_data

        w2 = dict(world)
        w2["data"] = {k: v for k, v in world["data"].items() if k != "fault_rows"}
        x, cond, _fr = make_data(w2, plain)
        fit_to_data(key, alt, x, condition=cond, loss_fn=loss, optimizer=opt, max_epochs=1, batch_size=world["batch_size"],
                    val_prop=world["val_prop"], show_progress=False)
    else:
        from flowjax.train import fit_to_variational_target

        fit_to_variational_target(key, alt, loss, steps=2, optimizer=opt, show_progress=False)


def _prelude_use(spec):
    """Build a sibling model and *use* it, then drop it: the gradient of log_prob and a sample are TRACED (all of
    flowjax's python code runs, which is where process-global state would be filled; no XLA compilation), and for one
    sibling seed in ten also compiled and executed."""
    import equinox as eqx
    import jax.numpy as jnp
    import jax.random as jr

    m = zoo.build(spec)
    shape, cond_dim = zoo.model_dims(spec)
    x = jnp.linspace(-1.5, 2.5, 3 * max(1, int(np.prod(shape)))).reshape((3,) + tuple(shape))
    cond = None if not cond_dim else jnp.ones((3, cond_dim)) * 0.5
    run = (lambda f, *a: eqx.filter_jit(f)(*a)) if int(spec.get("seed", 0)) % 10 == 0 else (lambda f, *a: eqx.filter_eval_shape(f, *a))
    if not zoo.numeric_inverse_only(spec) or spec.get("invert", True):
        try:
            run(eqx.filter_grad(lambda d, x, cond: d.log_prob(x, cond).sum()), m, x, cond)
        except Exception:  # noqa: BLE001 - e.g. no inverse implemented: sampling direction only
            pass
    if not zoo.numeric_inverse_only(spec) or not spec.get("invert", True):
        try:
            run(lambda d, k, c: d.sample(k, (2,), condition=c), m, jr.PRNGKey(0), None if cond is None else cond[0])
        except Exception:  # noqa: BLE001
            pass


def run_world(world):
    import jax
    import jax.random as jr

    n_used = 0
    for sib in world.get("prelude_use", []):
        try:
            _prelude_use(sib)
            n_used += 1
        except Exception:  # noqa: BLE001 - history, not the run under test
            pass
    prelude_note = None
    if world.get("prelude_train"):
        try:
            _prelude_train(world, world["prelude_train"])
            prelude_note = "ok"
        except Exception as e:  # noqa: BLE001 - history, not the run under test
            prelude_note = f"{type(e).__name__}: {str(e)[:120]}"

    for pre in world.get("prelude", []):
        # history before the model under test exists: other models built (and dropped) in the same
        # process — exposes construction-order dependence through process-global state
        try:
            zoo.build(pre)
        except Exception:  # noqa: BLE001
            pass
    hist = world.get("history") or {}
    hist_done = []
    if hist.get("pre"):
        from sim import history_ops

        hist_done += [("pre",) + t for t in history_ops.run_history(hist["pre"])]
    model_plain, model0, applied = build_world_model(world)
    shape, cond_dim = zoo.model_dims(world["model"])
    opt = observing_optimizer(world["opt"], world["lr"])
    _CURRENT["schedule"] = schedule_arrays(world.get("faults", []))
    loss = get_loss(world, shape)
    key = jr.key(world["key_seed"]) if world.get("key_style") == "typed" else jr.PRNGKey(world["key_seed"])
    _LOG.clear()
    exception = None
    ret_model, losses = None, None
    x = cond = None
    fault_rows = []
    try:
        with _Tqdm(world.get("show_progress", False)):
            if world["loop"] == "data":
                from flowjax.train import fit_to_data

                x, cond, fault_rows = make_data(world, model_plain)
                seam = {} if world.get("use_defaults") else {"loss_fn": loss, "optimizer": opt}
                ret_model, losses = fit_to_data(
                    key, model0, x, condition=cond, learning_rate=world["lr"], **seam,
                    max_epochs=world["max_epochs"], max_patience=world["max_patience"], batch_size=world["batch_size"],
                    val_prop=world["val_prop"], return_best=world["return_best"], show_progress=world.get("show_progress", False),
                )
                losses = {k: [float(v) for v in vs] for k, vs in losses.items()}
            else:
                from flowjax.train import fit_to_variational_target

                ret_model, losses = fit_to_variational_target(
                    key, model0, loss.inner if world.get("use_defaults") else loss, steps=world["steps"],
                    optimizer=None if world.get("use_defaults") else opt, learning_rate=world["lr"], return_best=world["return_best"],
                    show_progress=world.get("show_progress", False),
                )
                losses = {"vi": [float(v) for v in losses]}
            jax.effects_barrier()
    except Exception as e:  # noqa: BLE001 - reported by the oracle as run.exception
        exception = f"{type(e).__name__}: {str(e)[:400]}"
        try:
            jax.effects_barrier()
        except Exception:  # noqa: BLE001
            pass
    raw = list(_LOG)
    _LOG.clear()
    rejections = None
    if hist:
        from sim import history_ops

        if hist.get("post"):
            hist_done += [("post",) + t for t in history_ops.run_history(hist["post"])]
        # after all of that history: invalid constructor arguments must still be rejected
        rejections = history_ops.run_panel(hist.get("panel", []))
    steps, loss_events = [], []
    history = []  # ordered: ("L", i) / ("U", i)
    for ev in raw:
        if ev[0] == "UPDATE":
            _, t, kind, ps, gs, tid = ev
            steps.append({"t": t, "fault": kind, "params": ps, "grads": gs, "tid": tid})
            history.append(("U", len(steps) - 1))
        else:
            _, v, xb = ev
            has_fault = bool(xb is not None and any((xb.reshape(xb.shape[0], -1) == fr.reshape(1, -1)).all(axis=1).any() for fr in fault_rows))
            loss_events.append({"value": v, "x": xb, "has_fault_row": has_fault})
            history.append(("L", len(loss_events) - 1))
    return {
        "model_plain": model_plain,
        "model0": model0,
        "freeze_applied": applied,
        "ret_model": ret_model,
        "losses": losses,
        "steps": steps,
        "loss_events": loss_events,
        "history": history,
        "data": (x, cond),
        "fault_rows": [fr.tolist() for fr in fault_rows],
        "fault_rows_seen": sum(1 for e in loss_events if e["has_fault_row"]),
        "exception": exception,
        "n_loss_events": len(loss_events),
        "history_done": hist_done,
        "rejections": rejections,
        "prelude_train": prelude_note,
        "prelude_used": n_used,
    }


def state_model(result, i):
    """Full model at recorded step i (pre-update parameters of that step)."""
    import equinox as eqx
    import jax
    import jax.numpy as jnp

    leaves = [jnp.asarray(a) for a in result["steps"][i]["params"]]
    params = jax.tree_util.tree_unflatten(_TREEDEFS[result["steps"][i]["tid"]], leaves)
    return eqx.combine(params, result["model0"])


def leaves_finite(leaves):
    return all(np.all(np.isfinite(a)) for a in leaves if np.issubdtype(np.asarray(a).dtype, np.floating))


# --------------------------------------------------------------------------- summaries
def fired(world, result):
    f = {name: 0 for name in FAULT_NAMES.values()}
    for s in result["steps"]:
        if s["fault"]:
            f[FAULT_NAMES[s["fault"]]] += 1
    f["data_fault_row"] = int(result.get("fault_rows_seen", 0))
    f["degenerate_knobs"] = int(world.get("steps", 1) == 0 or world.get("max_epochs", 1) == 0 or world.get("batch_size", 2) == 1)
    return f


def result_digest(result, include_history=True):
    h = hashlib.sha256()
    for s in result["steps"]:
        h.update(bytes([s["fault"]]))
        for a in s["params"] + s["grads"]:
            h.update(np.ascontiguousarray(a).tobytes())
    for e in result["loss_events"]:
        h.update(np.float64(e["value"]).tobytes())
    if result["ret_model"] is not None:
        import jax

        for leaf in jax.tree_util.tree_leaves(result["ret_model"]):
            if hasattr(leaf, "dtype"):
                h.update(np.ascontiguousarray(np.asarray(leaf)).tobytes())
    h.update(repr(result["losses"]).encode())
    h.update(repr(result["exception"]).encode())
    if include_history and result.get("rejections") is not None:
        h.update(repr(sorted(result["rejections"].items())).encode())
        h.update(repr(result.get("history_done")).encode())
    return h.hexdigest()


def sample_view(world, result, probes, mode):
    return {
        "world": world,
        "mode": mode,
        "freeze_applied": result.get("freeze_applied"),
        "n_steps": len(result["steps"]),
        "faults_fired": [FAULT_NAMES[s["fault"]] + f"@{s['t']}" for s in result["steps"] if s["fault"]],
        "loss_history_head": [e["value"] for e in result["loss_events"][:12]],
        "losses": result["losses"],
        "exception": result["exception"],
        "probes": probes,
        "history_done": result.get("history_done"),
        "rejections": result.get("rejections"),
    }
