"""Oracles over the recorded history of an engine-A run (C15, C16).

Each oracle returns ``(violations, probes, mode)``:
* ``violations`` — list of ``{"clause": <stable id>, "detail": <str>}``
* ``probes``     — dict of reach counters for this run (ints / bools)
* ``mode``       — "strict" | "relaxed-ties" | "relaxed-nan" (decided by the *history's
                   content*, never by "something went wrong")

All clauses are consequences of the property text for *any* implementation; nothing about
which permutation is drawn, the rounding of the split, or the order of phases is assumed.
"""

from __future__ import annotations

import math

from sim import refmodel as R
from sim.engine_a import classify, row_tags


def _eq(a, b):
    """Equality that treats NaN == NaN."""
    if isinstance(a, float) and isinstance(b, float) and math.isnan(a) and math.isnan(b):
        return True
    return a == b


def _runs(calls):
    """Group G/N calls (ignoring P) into maximal runs: list of (kind, [calls])."""
    runs = []
    for c in calls:
        if c["kind"] == "P":
            continue
        if runs and runs[-1][0] == c["kind"]:
            runs[-1][1].append(c)
        else:
            runs.append((c["kind"], [c]))
    return runs


def _common_checks(world, out, V):
    if not out.get("struct_ok"):
        V.append({"clause": "ret.structure", "detail": "returned tree lost the input structure"})
        return False
    if not out.get("script_wrapped") or not out.get("script_identical"):
        V.append(
            {
                "clause": "ret.frozen_leaf_moved",
                "detail": "the NonTrainable 'script' leaf is not bit-identical after training",
            }
        )
    if not out.get("aux_identical"):
        V.append(
            {"clause": "ret.int_leaf_moved", "detail": "integer leaf 'aux' changed during training"}
        )
    return True


def _cumulative_w(gcalls, upto):
    acc = {}
    for g in gcalls[:upto]:
        for k, v in g["update"]["grad_rows"].items():
            acc[int(k)] = acc.get(int(k), 0.0) + v
    return acc


# =========================================================================== C16
def _crashed(result):
    return [{"clause": "run.exception", "detail": "the training loop raised on valid inputs: " + result["exception"]}]


def oracle_c16(world, result):
    V, P = [], {}
    if result.get("exception"):
        return _crashed(result), P, "strict"
    ev, out = result["events"], result["out"]
    calls, dangling = classify(ev)
    gcalls = [c for c in calls if c["kind"] == "G"]
    ncalls = [c for c in calls if c["kind"] == "N"]
    if dangling:
        V.append({"clause": "hist.update_without_loss", "detail": f"{dangling} UPDATE events not preceded by a LOSS"})
    ok_struct = _common_checks(world, out, V)
    rb = world["return_best"]
    P["return_best"] = int(rb)
    P["enumerated_block"] = int(bool(world.get("enumerated")))
    P["show_progress"] = int(world.get("show_progress", False))

    if world["loop"] == "vi":
        steps = world["steps"]
        losses = out["losses"]["vi"]
        mode = "strict"
        if R.has_nan(losses):
            mode = "relaxed-nan"
        elif R.has_tie_at_running_min(losses):
            mode = "relaxed-ties"
        P["vi"] = 1
        P["vi_steps_0"] = int(steps == 0)
        P["nan_in_losses"] = int(R.has_nan(losses))
        P["inf_in_losses"] = int(any(math.isinf(v) for v in losses))
        P["tie_at_min"] = int(mode == "relaxed-ties")
        if len(gcalls) != steps:
            V.append({"clause": "vi.exact_steps", "detail": f"{len(gcalls)} gradient steps for steps={steps}"})
        if len(losses) != steps:
            V.append({"clause": "vi.one_loss_per_step", "detail": f"{len(losses)} losses recorded for steps={steps}"})
        for i, g in enumerate(gcalls[: len(losses)]):
            if not _eq(float(g["loss"]["value"]), float(losses[i])):
                V.append(
                    {
                        "clause": "vi.loss_recorded_is_step_loss",
                        "detail": f"step {i}: loss fn returned {g['loss']['value']}, recorded {losses[i]}",
                    }
                )
                break
        keys = [tuple(g["loss"]["key"]) for g in gcalls]
        if len(set(keys)) != len(keys):
            V.append({"clause": "vi.fresh_key_per_step", "detail": "two steps received the same key"})
        if ok_struct and len(losses) == len(gcalls):
            c = out["c"]
            cs = [g["loss"]["c"] for g in gcalls]
            if not rb:
                if c != float(len(gcalls)):
                    V.append({"clause": "vi.return_last_params", "detail": f"returned c={c}, {len(gcalls)} steps were applied"})
            elif not losses:
                if c != 0.0:
                    V.append({"clause": "vi.return_best_params", "detail": f"no steps, returned c={c}"})
            elif mode == "strict":
                want = cs[R.first_argmin(losses)]
                P["best_not_last"] = int(R.first_argmin(losses) != len(losses) - 1)
                P["best_not_first"] = int(R.first_argmin(losses) != 0)
                if c != want:
                    V.append(
                        {
                            "clause": "vi.return_best_params",
                            "detail": f"losses={losses}: minimum evaluated at c={want}, returned c={c}",
                        }
                    )
            elif mode == "relaxed-ties":
                m = min(losses)
                allowed = {cs[i] for i, v in enumerate(losses) if v == m}
                if c not in allowed:
                    V.append(
                        {
                            "clause": "vi.return_best_params",
                            "detail": f"losses={losses}: minimum evaluated at c in {sorted(allowed)}, returned c={c}",
                        }
                    )
            else:  # NaN: only safety — an existing state
                allowed = set(cs) | {float(len(gcalls))}
                if c not in allowed:
                    V.append({"clause": "vi.return_existing_state", "detail": f"returned c={c} never existed"})
            want_w = _cumulative_w(gcalls, int(c)) if c == int(c) and 0 <= c <= len(gcalls) else None
            if want_w is not None and want_w != {int(k): v for k, v in out["w"].items()}:
                V.append({"clause": "ret.state_consistent", "detail": f"returned w={out['w']} is not the state after {int(c)} steps"})
        return V, P, mode

    # ----------------------------------------------------------------- data loop
    val, train = out["losses"]["val"], out["losses"]["train"]
    E = len(val)
    max_epochs, pat = world["max_epochs"], world["max_patience"]
    mode = "strict"
    if R.has_nan(val):
        mode = "relaxed-nan"
    elif R.has_tie_at_running_min(val):
        mode = "relaxed-ties"
    P["data"] = 1
    P["nan_in_val"] = int(R.has_nan(val))
    P["inf_in_val"] = int(any(math.isinf(v) for v in val))
    P["tie_at_min"] = int(mode == "relaxed-ties")
    P["max_epochs_0"] = int(max_epochs == 0)
    P["patience_0"] = int(pat == 0)

    if len(train) != E:
        V.append({"clause": "data.one_train_one_val_per_epoch", "detail": f"{len(train)} train vs {E} val losses"})
    if E > max_epochs:
        V.append({"clause": "data.at_most_max_epochs", "detail": f"{E} epochs run with max_epochs={max_epochs}"})
    runs = _runs(calls)
    nruns = [r[1] for r in runs if r[0] == "N"]
    gruns = [r[1] for r in runs if r[0] == "G"]
    if len(nruns) != E or len(gruns) != E:
        V.append(
            {
                "clause": "data.one_train_one_val_per_epoch",
                "detail": f"observed {len(gruns)} training phases and {len(nruns)} validation phases, {E} epochs recorded",
            }
        )
    if len(gruns) > max_epochs:
        V.append({"clause": "data.at_most_max_epochs", "detail": f"{len(gruns)} training phases observed with max_epochs={max_epochs}"})
    P["multi_val_batches"] = int(any(len(r) > 1 for r in nruns))
    P["multi_train_batches"] = int(any(len(r) > 1 for r in gruns))
    # recorded loss is the epoch's loss (only asserted where one batch makes it unambiguous)
    if len(nruns) == E:
        for e, r in enumerate(nruns):
            if len(r) == 1 and not _eq(float(r[0]["loss"]["value"]), float(val[e])):
                V.append(
                    {
                        "clause": "data.val_recorded_is_epoch_val",
                        "detail": f"epoch {e}: single validation batch loss {r[0]['loss']['value']} recorded as {val[e]}",
                    }
                )
                break
    if len(gruns) == E and len(train) == E:
        for e, r in enumerate(gruns):
            if len(r) == 1 and not _eq(float(r[0]["loss"]["value"]), float(train[e])):
                V.append(
                    {
                        "clause": "data.train_recorded_is_epoch_train",
                        "detail": f"epoch {e}: single training batch loss {r[0]['loss']['value']} recorded as {train[e]}",
                    }
                )
                break

    # stop rule
    if mode == "strict":
        for e in range(E - 1):
            if R.must_stop_after(val[: e + 1], pat):
                V.append(
                    {
                        "clause": "data.stop_not_late",
                        "detail": f"val={val[:e+1]} patience={pat}: should have stopped after epoch {e}, ran {E}",
                    }
                )
                break
        if 0 < E < max_epochs and not R.must_stop_after(val, pat):
            V.append(
                {
                    "clause": "data.stop_not_early",
                    "detail": f"val={val} patience={pat} max_epochs={max_epochs}: stopped after {E} epochs without exceeding patience",
                }
            )
        if E == 0 and max_epochs > 0:
            V.append({"clause": "data.stop_not_early", "detail": f"no epoch run with max_epochs={max_epochs}"})
    elif mode == "relaxed-ties":
        for e in range(E - 1):
            if R.must_stop_after(val[: e + 1], pat, R.first_argmin) and R.must_stop_after(
                val[: e + 1], pat, R.last_argmin
            ):
                V.append({"clause": "data.stop_not_late", "detail": f"val={val[:e+1]} patience={pat}: every reading of 'best' says stop after epoch {e}, ran {E}"})
                break
        if 0 < E < max_epochs and not (
            R.must_stop_after(val, pat, R.first_argmin) or R.must_stop_after(val, pat, R.last_argmin)
        ):
            V.append({"clause": "data.stop_not_early", "detail": f"val={val} patience={pat}: stopped after {E} epochs; no reading of 'best' exceeds patience"})
    P["early_stop_hit"] = int(0 < E < max_epochs)
    P["ran_to_max"] = int(E == max_epochs and E > 0)

    # returned parameters
    if ok_struct and len(nruns) == E:
        c = out["c"]
        c_at_val = []
        consistent = True
        for r in nruns:
            cs = {x["loss"]["c"] for x in r}
            if len(cs) != 1:
                consistent = False
            c_at_val.append(r[0]["loss"]["c"])
        if not consistent:
            V.append({"clause": "data.val_phase_single_state", "detail": "validation batches of one epoch were evaluated at different parameters"})
        total = float(len(gcalls))
        if not rb:
            if c != total:
                V.append({"clause": "data.return_last_params", "detail": f"return_best=False: returned c={c}, {int(total)} gradient steps applied"})
        elif E == 0:
            if c != 0.0:
                V.append({"clause": "data.return_best_params", "detail": f"no epochs, returned c={c}"})
        elif mode == "strict":
            e_star = R.first_argmin(val)
            P["best_not_last"] = int(e_star != E - 1)
            P["best_not_first"] = int(e_star != 0)
            if c != c_at_val[e_star]:
                V.append(
                    {
                        "clause": "data.return_best_params",
                        "detail": f"val={val}: best epoch {e_star} was evaluated at c={c_at_val[e_star]}, returned c={c}",
                    }
                )
        elif mode == "relaxed-ties":
            m = min(val)
            allowed = {c_at_val[e] for e, v in enumerate(val) if v == m}
            if c not in allowed:
                V.append({"clause": "data.return_best_params", "detail": f"val={val}: minimal epochs evaluated at c in {sorted(allowed)}, returned c={c}"})
        else:
            allowed = set(c_at_val) | {0.0}
            if c not in allowed:
                V.append({"clause": "data.return_existing_state", "detail": f"returned c={c} is not the state of any completed epoch"})
        if c == int(c) and 0 <= c <= len(gcalls):
            want_w = _cumulative_w(gcalls, int(c))
            if want_w != {int(k): v for k, v in out["w"].items()}:
                V.append({"clause": "ret.state_consistent", "detail": f"returned w is not the state after {int(c)} gradient steps"})
    return V, P, mode


# =========================================================================== C15
def oracle_c15(world, result):
    V, P = [], {}
    if result.get("exception"):
        return _crashed(result), P, "strict"
    ev, out = result["events"], result["out"]
    calls, dangling = classify(ev)
    n, bs = world["n"], world["batch_size"]
    mode = "strict"
    if dangling:
        V.append({"clause": "hist.update_without_loss", "detail": f"{dangling} UPDATE events not preceded by a LOSS"})
    ok_struct = _common_checks(world, out, V)
    runs = _runs(calls)
    gruns = [r[1] for r in runs if r[0] == "G"]
    nruns = [r[1] for r in runs if r[0] == "N"]
    gcalls = [c for c in calls if c["kind"] == "G"]
    ncalls = [c for c in calls if c["kind"] == "N"]
    E = len(out["losses"]["val"])
    P["epochs"] = E
    P["cond"] = int(world["cond_cols"] > 0)
    P["form_multi_dim_rows"] = int(bool(world.get("x_tail") or world.get("cond_tail")))
    P["form_non_float32_data"] = int(bool(world.get("data_dtype")))
    P["batch_1"] = int(bs == 1)
    P["batch_gt_n"] = int(bs > n)

    # 1. alignment -----------------------------------------------------------
    tags_of, aligned_of = {}, {}
    for c in gcalls + ncalls:
        tags_of[c["loss"]["seq"]], aligned_of[c["loss"]["seq"]] = row_tags(c["loss"])
    for c in gcalls + ncalls:
        tags, aligned = tags_of[c["loss"]["seq"]], aligned_of[c["loss"]["seq"]]
        if not aligned:
            V.append(
                {
                    "clause": "c15.alignment",
                    "detail": f"event {c['loss']['seq']}: a row's columns / condition row carry different indices: x={c['loss']['x']} cond={c['loss']['cond']}",
                }
            )
            break
        if any(t < 0 or t >= n for t in tags):
            V.append({"clause": "c15.alignment", "detail": f"event {c['loss']['seq']}: row index outside the dataset: {tags}"})
            break
        if (c["loss"]["cond"] is None) != (world["cond_cols"] == 0):
            V.append({"clause": "c15.alignment", "detail": "condition presence differs from the call"})
            break

    # a gradient call's update support must be its loss rows (conservation inside step)
    for g in gcalls:
        tags = tags_of[g["loss"]["seq"]]
        want = {}
        for t in tags:
            want[t] = want.get(t, 0.0) + 1.0
        got = {int(k): v for k, v in g["update"]["grad_rows"].items()}
        if want != got:
            V.append(
                {
                    "clause": "c15.gradient_rows_are_batch_rows",
                    "detail": f"event {g['loss']['seq']}: loss saw rows {sorted(tags)}, gradient covers {got}",
                }
            )
            break

    T = set()
    for g in gcalls:
        T.update(tags_of[g["loss"]["seq"]])
    Vs = set()
    for c in ncalls:
        Vs.update(tags_of[c["loss"]["seq"]])

    # 2. partition -------------------------------------------------------------
    if E > 0:
        if T & Vs:
            V.append({"clause": "c15.partition_disjoint", "detail": f"rows {sorted(T & Vs)} appear both in gradient steps and in validation"})
        if not T or not Vs:
            V.append({"clause": "c15.partition_nonempty", "detail": f"|train rows seen|={len(T)} |val rows seen|={len(Vs)}"})
    if len(gruns) != E or len(nruns) != E:
        V.append(
            {
                "clause": "c15.epoch_structure",
                "detail": f"{len(gruns)} training phases, {len(nruns)} validation phases, {E} epochs recorded",
            }
        )
    else:
        for e in range(E):
            Te, Ve = set(), set()
            seen_rows = []
            for g in gruns[e]:
                seen_rows.extend(tags_of[g["loss"]["seq"]])
            Te = set(seen_rows)
            # 3. at most once per epoch
            if len(seen_rows) != len(Te):
                dup = sorted({t for t in seen_rows if seen_rows.count(t) > 1})
                V.append({"clause": "c15.train_row_at_most_once_per_epoch", "detail": f"epoch {e}: rows {dup} used more than once"})
                break
            vrows = []
            for c in nruns[e]:
                vrows.extend(tags_of[c["loss"]["seq"]])
            Ve = set(vrows)
            if len(vrows) != len(Ve):
                V.append({"clause": "c15.val_row_at_most_once_per_epoch", "detail": f"epoch {e}: a validation row evaluated twice"})
                break
            # only a remainder smaller than one batch is skipped (train and val separately,
            # relative to everything ever seen in that role, and jointly relative to n)
            if len(T) - len(Te) >= bs:
                V.append(
                    {
                        "clause": "c15.skip_less_than_batch",
                        "detail": f"epoch {e}: {len(T) - len(Te)} training rows skipped with batch_size={bs}",
                    }
                )
                break
            if len(Vs) - len(Ve) >= bs:
                V.append({"clause": "c15.skip_less_than_batch", "detail": f"epoch {e}: {len(Vs) - len(Ve)} validation rows skipped with batch_size={bs}"})
                break
            if n - len(Te) - len(Ve) > 2 * (bs - 1):
                V.append(
                    {
                        "clause": "c15.partition_covers",
                        "detail": f"epoch {e}: {n - len(Te) - len(Ve)} of {n} rows in neither part (batch_size={bs})",
                    }
                )
                break
            if len(Te) < len(T):
                P["remainder_skipped"] = 1
            if len(nruns[e]) == 1:
                P["val_single_batch"] = 1
            # batches within a phase have equal size (documented: reshape to batches)
        if bs == 1 and E > 0 and (T | Vs) != set(range(n)):
            V.append({"clause": "c15.partition_covers", "detail": f"batch_size=1 but rows {sorted(set(range(n)) - T - Vs)} never seen"})

    # trailing remainder (sharpened by the permutation seam when it is interpretable)
    if len(gruns) == E:
        for e in range(E):
            first_seq = gruns[e][0]["loss"]["seq"]
            rows = []
            for g in gruns[e]:
                rows.extend(tags_of[g["loss"]["seq"]])
            perm = None
            for c in calls:
                if c["kind"] == "P" and c["perm"]["seq"] < first_seq:
                    col = [int(v) for v in c["perm"]["col0"] if v == int(v)]
                    if len(col) == len(c["perm"]["col0"]) and set(rows) <= set(col) and not (set(col) & Vs):
                        perm = col
            if perm is None:
                P["perm_seam_unused"] = P.get("perm_seam_unused", 0) + 1
                continue
            # is the sequence of rows a contiguous block of the recorded shuffled order?
            L = len(rows)
            starts = [s for s in range(len(perm) - L + 1) if perm[s : s + L] == rows]
            if not starts:
                P["perm_seam_uninterpretable"] = 1
                continue
            P["perm_seam_checked"] = P.get("perm_seam_checked", 0) + 1
            if 0 not in starts:
                V.append(
                    {
                        "clause": "c15.skipped_rows_are_trailing",
                        "detail": f"epoch {e}: batches start at position {starts[0]} of the shuffled order; rows {perm[:starts[0]]} (leading) were skipped",
                    }
                )
                break

    # 4. validation rows never take part in a gradient step ---------------------
    if ok_struct:
        w = {int(k): v for k, v in out["w"].items()}
        for t in sorted(Vs):
            if w.get(t, 0.0) != 0.0:
                V.append({"clause": "c15.val_row_in_gradient", "detail": f"validation row {t} has gradient-step count {w[t]} in the returned parameters"})
                break
        c = out["c"]
        if c == int(c) and 0 <= c <= len(gcalls) and out.get("w_finite", True):
            want = _cumulative_w(gcalls, int(c))
            if want != w:
                V.append({"clause": "c15.conservation", "detail": f"returned per-row usage differs from the sum of the first {int(c)} observed gradient steps"})
    for e in range(min(E, len(nruns))):
        if not nruns[e]:
            V.append({"clause": "c15.epoch_structure", "detail": f"epoch {e} has no validation call"})

    # 5. fresh keys -----------------------------------------------------------------
    keys = [tuple(c["loss"]["key"]) for c in gcalls + ncalls]
    if len(set(keys)) != len(keys):
        V.append({"clause": "c15.fresh_key_per_batch", "detail": "two batches received the same key"})
    if tuple(out["caller_key"]) in set(keys):
        V.append({"clause": "c15.fresh_key_per_batch", "detail": "a batch received the caller's key itself"})
    pkeys = {tuple(c["perm"]["key"]) for c in calls if c["kind"] == "P"}
    if pkeys & set(keys):
        V.append({"clause": "c15.fresh_key_per_batch", "detail": "a batch received a key that was also used for shuffling"})
    P["n_loss_calls"] = len(keys)
    return V, P, mode
