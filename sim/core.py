"""Core: seed derivation, canonical JSON, digests, environment pinning, repo identity.

One integer decides everything: ``run_seed = H(VERIF_SEED, property, tier, run_index)``
and one ``random.Random(run_seed)`` draws the whole world of a run in a fixed order.
Nothing here reads a clock or draws from a PRNG while logging.
"""

from __future__ import annotations

import hashlib
import json
import math
import os
import random
import subprocess
import sys

VERIF_DIR = os.path.dirname(os.path.dirname(os.path.abspath(__file__)))
REPO_DIR = os.environ.get("VERIF_REPO", "/repo")
PYTHON = "/venv/bin/python"

# Environment every simulation process runs under (workers are re-exec'd with it).
PINNED_ENV = {
    "PYTHONHASHSEED": "0",
    "XLA_FLAGS": "--xla_cpu_multi_thread_eigen=false intra_op_parallelism_threads=1",
    "JAX_PLATFORMS": "cpu",
    "OMP_NUM_THREADS": "1",
    "OPENBLAS_NUM_THREADS": "1",
    "MKL_NUM_THREADS": "1",
    "PYTHONDONTWRITEBYTECODE": "1",
    "TF_CPP_MIN_LOG_LEVEL": "3",
    "FLOWJAX_VERIF": "1",  # MANIFEST.hooks.guard; no source hook reads it (none needed)
}


def worker_env(extra: dict | None = None) -> dict:
    env = dict(os.environ)
    env.update(PINNED_ENV)
    pp = [REPO_DIR, VERIF_DIR]
    env["PYTHONPATH"] = os.pathsep.join(pp)
    if extra:
        env.update(extra)
    return env


def derive_seed(*parts) -> int:
    """Stable 63-bit integer from arbitrary printable parts (no hash())."""
    h = hashlib.sha256("\x1f".join(str(p) for p in parts).encode()).digest()
    return int.from_bytes(h[:8], "big") >> 1


def rng_for(*parts) -> random.Random:
    return random.Random(derive_seed(*parts))


def base_seed() -> int:
    v = os.environ.get("VERIF_SEED", "").strip()
    try:
        return int(v) if v else 0
    except ValueError:
        return derive_seed("VERIF_SEED", v)


def _canon(o):
    """Canonical, JSON-safe form: floats as repr strings when non-finite, numpy → lists."""
    import numpy as np  # local: core is importable without numpy

    if isinstance(o, dict):
        return {str(k): _canon(o[k]) for k in sorted(o, key=str)}
    if isinstance(o, (list, tuple)):
        return [_canon(v) for v in o]
    if isinstance(o, np.ndarray):
        return _canon(o.tolist())
    if isinstance(o, (np.floating,)):
        o = float(o)
    if isinstance(o, (np.integer,)):
        return int(o)
    if isinstance(o, (np.bool_,)):
        return bool(o)
    if isinstance(o, float):
        if math.isnan(o):
            return "NaN"
        if math.isinf(o):
            return "Infinity" if o > 0 else "-Infinity"
        return o
    return o


def canon_json(o) -> str:
    return json.dumps(_canon(o), sort_keys=True, separators=(",", ":"))


def digest(o) -> str:
    return hashlib.sha256(canon_json(o).encode()).hexdigest()


def jsonable(o):
    return _canon(o)


def repo_identity() -> dict:
    """HEAD and a hash of the working-tree diff of the repo under test."""

    def git(*a):
        try:
            return subprocess.run(
                ["git", "-C", REPO_DIR, *a], capture_output=True, text=True, timeout=60
            ).stdout
        except Exception:  # noqa: BLE001
            return ""

    head = git("rev-parse", "HEAD").strip()
    diff = git("diff", "HEAD", "--", "flowjax")
    return {
        "repo": REPO_DIR,
        "head": head,
        "dirty": bool(diff.strip()),
        "diff_sha256": hashlib.sha256(diff.encode()).hexdigest()[:16],
    }


def assert_flowjax_from_repo():
    import flowjax

    path = os.path.realpath(flowjax.__file__)
    want = os.path.realpath(os.path.join(REPO_DIR, "flowjax"))
    if not path.startswith(want + os.sep):
        raise RuntimeError(f"flowjax imported from {path}, expected under {want}")
    return path


def n_maps() -> int:
    try:
        with open("/proc/self/maps") as f:
            return sum(1 for _ in f)
    except OSError:
        return 0


def maybe_clear_caches(threshold: int = 20000) -> bool:
    """XLA's CPU JIT pins memory mappings per executable; release them before the limit."""
    if n_maps() < threshold:
        return False
    import gc

    import equinox as eqx
    import jax

    jax.clear_caches()
    eqx.clear_caches()
    gc.collect()
    return True


def eprint(*a):
    print(*a, file=sys.stderr, flush=True)
