"""Model zoo for engine B: real flowjax models built deterministically from a JSON spec.

The *structure* (and hence every compiled program) is a function of the spec minus its
``seed`` / ``args``; array values come from ``seed``.

``WeightNormalization`` cannot be constructed under ``filter_vmap`` with the installed equinox
(so the factories ``block_neural_autoregressive_flow`` / ``triangular_spline_flow`` fail), but it
constructs eagerly. The kinds ``bnaf`` and ``tri_spline`` therefore build the factories' layers
one by one with the public constructors and either chain them or stack their array leaves and
scan over them -- the stacked tree is what ``filter_vmap`` would have produced (same node
structure, same ``_dummy`` batch shape on the nested ``BijectionReparam`` wrappers).
"""

from __future__ import annotations

import math

import numpy as np


def _rng(seed):
    return np.random.default_rng(int(seed) % (2**32))


def _loguniform(r, lo, hi, size=None):
    return np.exp(r.uniform(math.log(lo), math.log(hi), size))


def named_args(name, dim, seed, lo, hi):
    """Constructor arguments of a named family, drawn log-uniformly in [lo, hi] (scales,
    rates, df, weights) — returned as plain floats/lists so they can be compared later."""
    r = _rng(seed)
    shape = (dim,) if dim else ()
    loc = r.normal(size=shape) * 2.0
    scale = _loguniform(r, lo, hi, shape)
    a = {"loc": loc.tolist(), "scale": scale.tolist()}
    if name == "StudentT":
        a["df"] = _loguniform(r, max(lo, 1e-3), min(hi, 1e3), shape).tolist()
    if name == "Exponential":
        a = {"rate": scale.tolist()}
    if name == "Uniform":
        a = {"minval": loc.tolist(), "maxval": (loc + scale * (1 + np.abs(loc) * 1e-3) + np.abs(loc) * 1e-3).tolist()}
    if name == "MultivariateNormal":
        d = max(dim, 1)
        q, _ = np.linalg.qr(r.normal(size=(d, d)))
        s = _loguniform(r, lo, hi, d)  # overall covariance magnitude over the property's full range
        ev = np.exp(r.uniform(0, math.log(20.0), d))  # condition number <= 20
        cov = (q * ev) @ q.T
        cov = (cov + cov.T) / 2 * float(s[0])
        if r.uniform() < 0.5:
            # variances of very different magnitude side by side (sd in sqrt(lo)..sqrt(hi) per dimension):
            # Sigma = D C D with C the correlation matrix of the well-conditioned draw above
            sd0 = np.sqrt(np.diag(cov))
            corr = cov / np.outer(sd0, sd0)
            sd = np.sqrt(_loguniform(r, lo, hi, d))
            cov = corr * np.outer(sd, sd)
            cov = (cov + cov.T) / 2
        a = {"loc": (r.normal(size=d) * 2).tolist(), "covariance": cov.tolist()}
    if name == "MixShiftedLogNormal":
        k = 3
        a = {
            "loc": (r.normal(size=(k,) + shape) * 0.5).tolist(),
            "scale": _loguniform(r, 0.3, 2.0, (k,) + shape).tolist(),
            "shift": (np.sort(r.normal(size=(k,) + shape) * 1.5, axis=0)).tolist(),
            "weights": _loguniform(r, max(lo, 1e-1), min(hi, 1e1), k).tolist(),
        }
    if name == "VmapMixture":
        k = 3
        a = {
            "loc": (r.normal(size=(k,) + shape) * 2).tolist(),
            "scale": _loguniform(r, max(lo, 1e-2), min(hi, 1e2), (k,) + shape).tolist(),
            "weights": _loguniform(r, lo, hi, k).tolist(),
        }
    return a


def build(spec):
    """Build the (un-frozen) model described by ``spec``."""
    import equinox as eqx
    import jax.numpy as jnp
    import jax.random as jr
    from flowjax import bijections as B
    from flowjax import distributions as D
    from flowjax import flows as F

    kind = spec["kind"]
    dim = spec.get("dim", 2)
    seed = spec.get("seed", 0)
    r = _rng(seed)
    f32 = lambda v: jnp.asarray(np.asarray(v, dtype=np.float32))  # noqa: E731

    if kind == "named":
        name = spec["name"]
        a = spec["args"]
        if name == "VmapMixture":
            comp = eqx.filter_vmap(D.Normal)(f32(a["loc"]), f32(a["scale"]))
            return D.VmapMixture(comp, f32(a["weights"]))
        if name == "MixShiftedLogNormal":
            # components whose supports (shift_k, inf) differ: outside a component's support its
            # bijection's inverse is NaN, which log_prob must turn into -inf, never a NaN gradient
            def comp(loc, scale, shift):
                return D.Transformed(D.StandardNormal(jnp.shape(loc)), B.Chain([B.Affine(loc, scale), B.Exp(jnp.shape(loc)), B.Loc(shift)]))

            c = eqx.filter_vmap(comp)(f32(a["loc"]), f32(a["scale"]), f32(a["shift"]))
            return D.VmapMixture(c, f32(a["weights"]))
        cls = getattr(D, name)
        return cls(**{k: f32(v) for k, v in a.items()})

    base = D.StandardNormal((dim,))
    if spec.get("base") == "normal":
        base = D.Normal(f32(r.normal(size=dim)), f32(_loguniform(r, 0.3, 3.0, dim)))
    elif spec.get("base") == "studentt":
        base = D.StudentT(f32(_loguniform(r, 1.0, 20.0, dim)), f32(r.normal(size=dim)), f32(_loguniform(r, 0.3, 3.0, dim)))
    elif spec.get("base") == "uniform":
        base = D.Uniform(f32(-np.ones(dim) * 3), f32(np.ones(dim) * 3))

    if kind == "affine":
        return D.Transformed(base, B.Affine(f32(r.normal(size=dim)), f32(_loguniform(r, 0.2, 5.0, dim))))
    if kind == "scale":
        return D.Transformed(base, B.Scale(f32(_loguniform(r, 0.2, 5.0, dim))))
    if kind == "triaffine":
        arr = r.normal(size=(dim, dim)) * 0.5
        arr[np.diag_indices(dim)] = _loguniform(r, 0.3, 3.0, dim)
        return D.Transformed(base, B.TriangularAffine(f32(r.normal(size=dim)), f32(arr), lower=spec.get("lower", True)))
    if kind == "vspline":
        spl = _vspline(spec, dim)
        bij = B.Invert(spl) if spec.get("invert") else spl
        return D.Transformed(base, bij)
    if kind == "planar":
        pl = B.Planar(jr.PRNGKey(seed), dim=dim, cond_dim=spec.get("cond_dim"), negative_slope=spec.get("negative_slope"),
                      **({"width_size": spec.get("width", 3), "depth": spec.get("depth", 1)} if spec.get("cond_dim") else {}))
        bij = B.Invert(pl) if spec.get("invert", True) else pl
        return D.Transformed(base, bij)
    if kind == "chain":
        items = []
        for it in spec["items"]:
            items.append(_chain_item(it, dim, r, f32))
        return D.Transformed(base, B.Chain(items))
    if kind == "nested_chain":
        # Chain([ first..., Chain([inner...]), last... ]) — exercised together with the
        # 'merge_chains' post-freeze operation (freeze a sub-chain, flatten, train)
        mk = lambda its: [_chain_item(it, dim, r, f32) for it in its]  # noqa: E731
        inner = B.Chain(mk(spec["inner"]))
        return D.Transformed(base, B.Chain([*mk(spec["first"]), inner, *mk(spec["last"])]))
    if kind == "scan_vspline":
        # shape of triangular_spline_flow without the (unconstructible) weight normalisation:
        # wrappers created under TWO levels of vmap (layers x dims)
        L = spec.get("layers", 2)

        def make_layer(key):
            w = jr.normal(key, (dim, dim)) * 0.3
            w = w.at[jnp.diag_indices(dim)].set(1.0)
            tri = B.TriangularAffine(jnp.zeros(dim), w)
            return B.Chain([B.LeakyTanh(3.0, (dim,)), _vspline(spec, dim), B.Invert(B.LeakyTanh(3.0, (dim,))), tri])

        layers = eqx.filter_vmap(make_layer)(jr.split(jr.PRNGKey(seed), L))
        sc = B.Scan(layers)
        return D.Transformed(base, B.Invert(sc) if spec.get("invert", True) else sc)
    if kind in ("bnaf", "tri_spline"):
        L = spec.get("layers", 1)
        cond_dim = spec.get("cond_dim")
        keys = jr.split(jr.PRNGKey(seed), L)
        if kind == "bnaf":
            layers = [_bnaf_layer(k, dim, cond_dim, spec) for k in keys]
        else:
            layers = [_tri_spline_layer(k, dim, cond_dim, spec) for k in keys]
        mode = spec.get("mode", "single")
        if mode == "single":
            bij = layers[0]
        elif mode == "chain":
            bij = B.Chain(layers)
        else:  # "scan": the structure filter_vmap(make_layer)(keys) has in the factories
            parts = [eqx.partition(l, eqx.is_array) for l in layers]
            import jax

            stacked = jax.tree_util.tree_map(lambda *xs: jnp.stack(xs), *[p[0] for p in parts])
            bij = B.Scan(eqx.combine(stacked, parts[0][1]))
        return D.Transformed(base, B.Invert(bij) if spec.get("invert", True) else bij)
    if kind in ("coupling_layer", "maf_layer"):
        # ONE layer through its public constructor (the flow factories fix untransformed_dim = dim // 2 and add permutations)
        key = jr.PRNGKey(seed)
        tr = B.Affine() if spec.get("transformer", "affine") == "affine" else None
        if spec.get("transformer") == "spline":
            iv = spec.get("interval", [-4.0, 4.0])
            tr = B.RationalQuadraticSpline(knots=spec.get("knots", 3), interval=(float(iv[0]), float(iv[1])))
        if spec.get("transformer") == "loc":
            tr = B.Loc(jnp.asarray(0.0))
        if kind == "coupling_layer":
            lay = B.Coupling(key, transformer=tr, untransformed_dim=spec["untransformed_dim"], dim=dim, cond_dim=spec.get("cond_dim"),
                             nn_width=spec.get("width", 3), nn_depth=spec.get("depth", 1))
        else:
            lay = B.MaskedAutoregressive(key, transformer=tr, dim=dim, cond_dim=spec.get("cond_dim"), nn_width=spec.get("width", 3), nn_depth=spec.get("depth", 1))
        return D.Transformed(base, B.Invert(lay) if spec.get("invert", True) else lay)
    if kind == "container":
        v = spec["variant"]
        aff = lambda d: B.Affine(f32(r.normal(size=d) * 0.3), f32(_loguniform(r, 0.5, 2.0, d)))  # noqa: E731
        if v == "concat":
            bij = B.Concatenate([aff(1), B.Scale(f32(_loguniform(r, 0.5, 2.0, max(dim - 1, 1))))])
            shape = (1 + max(dim - 1, 1),)
        elif v == "stack":
            bij = B.Stack([aff(dim), B.Chain([B.Tanh((dim,)), aff(dim)])])
            shape = (2, dim)
        elif v == "partial":
            bij = B.Partial(aff(2), jnp.array([0, dim]), (dim + 1,))
            shape = (dim + 1,)
        elif v == "reshape":
            bij = B.Reshape(aff(2 * dim), (2, dim))
            shape = (2, dim)
        elif v == "embed":
            inner = B.Planar(jr.PRNGKey(seed), dim=dim, cond_dim=2, negative_slope=0.1, width_size=2, depth=0)
            bij = B.Invert(B.EmbedCondition(inner, eqx.nn.Linear(3, 2, key=jr.PRNGKey(seed + 1)), (3,)))
            shape = (dim,)
        elif v == "additive":
            bij = B.Chain([aff(dim), B.AdditiveCondition(eqx.nn.Linear(2, dim, use_bias=False, key=jr.PRNGKey(seed)), (dim,), (2,))])
            shape = (dim,)
        else:
            raise KeyError(v)
        return D.Transformed(D.StandardNormal(shape), bij)
    if kind == "flow":
        key = jr.PRNGKey(seed)
        tr = None
        if spec.get("transformer") == "spline":
            iv = spec.get("interval", [-4.0, 4.0])
            tr = B.RationalQuadraticSpline(knots=spec.get("knots", 4), interval=(float(iv[0]), float(iv[1])),
                                           min_derivative=spec.get("min_derivative", 1e-3),
                                           softmax_adjust=spec.get("softmax_adjust", 1e-2))
        if spec.get("transformer") == "affine_frozen_loc":
            # a user-supplied transformer with a frozen part: the conditioner must not parameterise it
            from flowjax.wrappers import NonTrainable

            tr = eqx.tree_at(lambda a: a.loc, B.Affine(jnp.asarray(0.25), jnp.asarray(1.5)), replace_fn=NonTrainable)
        if spec.get("transformer") == "loc":
            tr = B.Loc(jnp.asarray(0.0))
        if spec.get("transformer") == "scale":
            tr = B.Scale(jnp.asarray(1.0))
        if spec.get("transformer") == "affine_frozen_scale_node":
            # node-wise freezing: the wrapper holds another wrapper (BijectionReparam), not a bare array
            from flowjax.wrappers import NonTrainable

            tr = eqx.tree_at(lambda a: a.scale, B.Affine(jnp.asarray(0.0), jnp.asarray(1.5)), replace_fn=NonTrainable)
        if spec.get("transformer") == "spline_frozen_derivs":
            from flowjax.wrappers import non_trainable

            tr = B.RationalQuadraticSpline(knots=3, interval=(-3.0, 3.0))
            tr = eqx.tree_at(lambda t: t.derivatives, tr, replace_fn=non_trainable)
        common = dict(base_dist=base, cond_dim=spec.get("cond_dim"), flow_layers=spec.get("layers", 2), invert=spec.get("invert", True))
        if spec["flow"] == "coupling":
            return F.coupling_flow(key, transformer=tr, nn_width=spec.get("width", 4), nn_depth=spec.get("depth", 1), **common)
        if spec["flow"] == "maf":
            return F.masked_autoregressive_flow(key, transformer=tr, nn_width=spec.get("width", 4), nn_depth=spec.get("depth", 1), **common)
        if spec["flow"] == "planar":
            kw = {"width_size": spec.get("width", 3), "depth": spec.get("depth", 1)} if spec.get("cond_dim") else {}
            return F.planar_flow(key, negative_slope=spec.get("negative_slope"), **common, **kw)
    raise KeyError(f"unknown model kind {kind!r}")


def _act_x_plus_tanh(x):
    import jax.numpy as jnp

    return x + jnp.tanh(x)


def _default_permute(bij, dim, key):
    """flowjax.flows._add_default_permute, through public constructors."""
    import jax.numpy as jnp
    import jax.random as jr
    from flowjax import bijections as B

    if dim == 1:
        return bij
    if dim == 2:
        return B.Chain([bij, B.Flip((dim,))]).merge_chains()
    return B.Chain([bij, B.Permute(jr.permutation(key, jnp.arange(dim)))]).merge_chains()


def _bnaf_layer(key, dim, cond_dim, spec):
    import jax.random as jr
    from flowjax import bijections as B

    act = {None: None, "leaky1": B.LeakyTanh(1.0), "leaky8": B.LeakyTanh(8.0), "tanh": B.Tanh(), "callable": _act_x_plus_tanh}[spec.get("activation")]
    bij_key, perm_key = jr.split(key)
    b = B.BlockAutoregressiveNetwork(bij_key, dim=dim, cond_dim=cond_dim, depth=spec.get("depth", 1), block_dim=spec.get("block_dim", 2), activation=act)
    if spec.get("mode", "single") == "single":
        return b
    return _default_permute(b, dim, perm_key)


def _tri_spline_layer(key, dim, cond_dim, spec):
    """One layer of flowjax.flows.triangular_spline_flow (weight-normalised triangular affine behind
    leaky-tanh / spline / inverse leaky-tanh), built eagerly."""
    import equinox as eqx
    import jax.numpy as jnp
    import jax.random as jr
    from flowjax import bijections as B
    from flowjax.wrappers import WeightNormalization
    from jax.nn.initializers import glorot_uniform

    lt_key, perm_key, cond_key = jr.split(key, 3)
    weights = glorot_uniform()(lt_key, (dim, dim))
    tri = B.TriangularAffine(jnp.zeros(dim), weights.at[jnp.diag_indices(dim)].set(1))
    tri = eqx.tree_at(lambda t: t.triangular, tri, replace_fn=WeightNormalization)
    mv = float(spec.get("tanh_max_val", 3.0))
    knots = spec.get("knots", 4)
    spl = eqx.filter_vmap(lambda: B.RationalQuadraticSpline(knots=knots, interval=1), axis_size=dim)()
    bijs = [B.LeakyTanh(mv, (dim,)), B.Vmap(spl, in_axes=eqx.if_array(0)), B.Invert(B.LeakyTanh(mv, (dim,))), tri]
    if cond_dim is not None:
        bijs.append(B.AdditiveCondition(eqx.nn.Linear(cond_dim, dim, use_bias=False, key=cond_key), (dim,), (cond_dim,)))
    bij = B.Chain(bijs)
    if spec.get("mode", "single") == "single":
        return bij
    return _default_permute(bij, dim, perm_key)


def _vspline(spec, dim):
    import equinox as eqx
    from flowjax import bijections as B

    iv = spec.get("interval", [-4.0, 4.0])

    def mk():
        return B.RationalQuadraticSpline(knots=spec.get("knots", 4), interval=(float(iv[0]), float(iv[1])),
                                         min_derivative=spec.get("min_derivative", 1e-3),
                                         softmax_adjust=spec.get("softmax_adjust", 1e-2))

    spl = eqx.filter_vmap(mk, axis_size=dim)()
    return B.Vmap(spl, in_axes=eqx.if_array(0))


def _chain_item(it, dim, r, f32):
    from flowjax import bijections as B

    name = it[0]
    if name == "Affine":
        return B.Affine(f32(r.normal(size=dim) * 0.3), f32(_loguniform(r, 0.5, 2.0, dim)))
    if name == "AffineId":
        return B.Affine(f32(np.zeros(dim)), f32(np.ones(dim)))
    if name == "LeakyTanh":
        return B.LeakyTanh(float(it[1]), (dim,))
    if name == "InvLeakyTanh":
        return B.Invert(B.LeakyTanh(float(it[1]), (dim,)))
    if name == "Tanh":
        return B.Tanh((dim,))
    if name == "InvTanh":
        return B.Invert(B.Tanh((dim,)))
    if name == "Exp":
        return B.Exp((dim,))
    if name == "InvExp":
        return B.Invert(B.Exp((dim,)))
    if name == "SoftPlus":
        return B.SoftPlus((dim,))
    if name == "InvSoftPlus":
        return B.Invert(B.SoftPlus((dim,)))
    if name == "Flip":
        return B.Flip((dim,))
    if name == "TriAffine":
        arr = r.normal(size=(dim, dim)) * 0.4
        arr[np.diag_indices(dim)] = _loguniform(r, 0.5, 2.0, dim)
        return B.TriangularAffine(f32(r.normal(size=dim) * 0.3), f32(arr))
    if name == "VSpline":
        return _vspline({"knots": it[1], "interval": it[2]}, dim)
    if name == "InvVSpline":
        return B.Invert(_vspline({"knots": it[1], "interval": it[2]}, dim))
    if name == "Scale":
        return B.Scale(f32(_loguniform(r, 0.5, 2.0, dim)))
    raise KeyError(name)


def model_dims(spec):
    """(shape, cond_dim) without building."""
    if spec["kind"] == "named":
        d = spec.get("dim", 0)
        if spec["name"] == "MultivariateNormal":
            d = max(d, 1)
        return ((d,) if d else ()), None
    if spec["kind"] == "container":
        d, v = spec.get("dim", 2), spec["variant"]
        shape = {"concat": (1 + max(d - 1, 1),), "stack": (2, d), "partial": (d + 1,), "reshape": (2, d), "embed": (d,), "additive": (d,)}[v]
        return shape, {"embed": 3, "additive": 2}.get(v)
    return (spec.get("dim", 2),), spec.get("cond_dim")


def numeric_inverse_only(spec):
    """True for models one of whose directions runs the bisection inverter (never called by the harness:
    it need not terminate for a bounded activation or a flat, underflowed diagonal)."""
    return spec.get("kind") == "bnaf"
