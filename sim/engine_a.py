"""Engine A — scripted-training simulation (C15, C16).

The *real* ``fit_to_data`` / ``fit_to_variational_target`` (and everything they call) run
unmodified; the simulator owns every seam they expose:

* ``dist``      a tiny pytree ``{c, w, script: NonTrainable, aux:int}``
* ``loss_fn``   a scripted, tagging loss: value = script[round(c)]; gradient w.r.t. ``w`` =
                multiset of the row tags in the batch; records a LOSS event
* ``optimizer`` a counting optimiser: ``c += 1``; ``w += grad_w``; every *other* leaf it is
                offered is moved by +1 (so "was offered" is observable); records an UPDATE event
* ``key``       derived from the world
* ``x, condition`` rows that carry their own index in every column
* module attributes ``tqdm`` (progress stream → StringIO) and ``jr`` (recording proxy for
  ``permutation``; optional and only ever used to *skip or sharpen* one C15 clause)

A run is a pure function ``world -> (events, outputs)``.
"""

from __future__ import annotations

import io
import math
import threading
from functools import partial

import numpy as np

NMAX = 72  # >= max n (60) + slack
LMAX = 320  # script length (index = number of gradient steps so far, clipped)

_LOG: list = []  # host-side event log of the current solo run (ordered callbacks append)
# Concurrent callers (sim/sched.py): every run carries its id in the otherwise unused slot
# w[NMAX-1] (no row has that tag; its gradient is exactly zero), the callbacks read it back
# from the data they are handed, and each run logs into its own list. Solo runs have id 0.
_LOGS: dict = {0: _LOG}
_LOST: list = []  # events whose run id could not be read (never expected)
_TLS = threading.local()


def _log_of(rid):
    try:
        return _LOGS[int(round(float(rid)))]
    except (KeyError, ValueError, OverflowError):
        return _LOST


def _thread_log():
    return _LOGS.get(getattr(_TLS, "rid", 0), _LOST)


# --------------------------------------------------------------------------- host side
def _flat_rows(a):
    a = np.array(a, copy=True)
    return a.reshape(a.shape[0], -1) if a.ndim > 2 else a


def _rec_loss_data(x, cond, kd, c, value, rid=0):
    x = _flat_rows(x)
    cond = None if cond is None else _flat_rows(cond)
    _log_of(rid).append(
        (
            "LOSS",
            np.array(x, copy=True),
            None if cond is None else np.array(cond, copy=True),
            np.array(kd, copy=True),
            float(c),
            float(value),
        )
    )


def _rec_loss_data_nocond(x, kd, c, value, rid=0):
    _rec_loss_data(x, None, kd, c, value, rid)


def _rec_loss_vi(kd, c, value, rid=0):
    _log_of(rid).append(("LOSS", None, None, np.array(kd, copy=True), float(c), float(value)))


def _rec_update(gw, c_before, n_other, rid=0):
    _log_of(rid).append(("UPDATE", np.array(gw, copy=True), float(c_before), int(n_other)))


# --------------------------------------------------------------------------- jax side
def _key_data(key):
    import jax
    import jax.numpy as jnp
    import jax.random as jr

    if key is None:
        return jnp.zeros((2,), jnp.uint32)
    if jnp.issubdtype(key.dtype, jax.dtypes.prng_key):
        return jr.key_data(key)
    return jnp.asarray(key)


def _script_of(model):
    node = model["script"]
    return getattr(node, "tree", node)


def scripted_data_loss(params, static, x, condition=None, key=None):
    """Loss for fit_to_data: value scripted by ``c``; gradient tags the batch rows.

    Jitted as a whole (like flowjax's own losses) so the eager validation call costs one
    compilation per shape rather than one per primitive.
    """
    return _scripted_data_loss_jit()(params, static, x, condition, key)


_JIT_CACHE = {}


def _scripted_data_loss_jit():
    import equinox as eqx

    if "data" not in _JIT_CACHE:
        _JIT_CACHE["data"] = eqx.filter_jit(_scripted_data_loss)
    return _JIT_CACHE["data"]


def _scripted_data_loss(params, static, x, condition=None, key=None):
    import equinox as eqx
    import jax.numpy as jnp
    from jax.experimental import io_callback
    from jax.lax import stop_gradient as sg

    model = eqx.combine(params, static)
    c, w, script = model["c"], model["w"], _script_of(model)
    col0 = x if x.ndim == 1 else x.reshape(x.shape[0], -1)[:, 0]
    tags = jnp.clip(jnp.round(col0).astype(jnp.int32), 0, NMAX - 1)
    s = jnp.sum(w[tags])
    idx = jnp.clip(jnp.round(c).astype(jnp.int32), 0, LMAX - 1)
    value = sg(script)[idx] + (s - sg(s))
    kd = _key_data(key)
    if condition is None:
        io_callback(
            _rec_loss_data_nocond, None, sg(x), kd, sg(c), sg(value), sg(w[NMAX - 1]), ordered=True
        )
    else:
        io_callback(
            _rec_loss_data, None, sg(x), sg(condition), kd, sg(c), sg(value), sg(w[NMAX - 1]), ordered=True
        )
    return value


def scripted_vi_loss(params, static, key):
    """Loss for fit_to_variational_target: value scripted by ``c`` (= step index)."""
    import equinox as eqx
    import jax.numpy as jnp
    from jax.experimental import io_callback
    from jax.lax import stop_gradient as sg

    model = eqx.combine(params, static)
    c, w, script = model["c"], model["w"], _script_of(model)
    s = w[0]  # the gradient marks w[0]: one count per gradient step
    idx = jnp.clip(jnp.round(c).astype(jnp.int32), 0, LMAX - 1)
    value = sg(script)[idx] + (s - sg(s))
    io_callback(_rec_loss_vi, None, _key_data(key), sg(c), sg(value), sg(w[NMAX - 1]), ordered=True)
    return value


def _make_counting_optimizer():
    import jax
    import jax.numpy as jnp
    import optax
    from jax.experimental import io_callback
    from jax.lax import stop_gradient as sg

    def init(params):
        del params
        return ()

    def update(grads, state, params=None):
        # every leaf offered to the optimiser other than c and w is moved by +1
        leaves = jax.tree_util.tree_leaves(grads)
        n_other = len(leaves) - 2
        updates = jax.tree_util.tree_map(lambda g: jnp.ones_like(g), grads)
        updates["c"] = jnp.ones_like(grads["c"])
        updates["w"] = grads["w"]
        c_before = params["c"] if params is not None else jnp.float32(-1)
        rid = params["w"][NMAX - 1] if params is not None else jnp.float32(0)
        io_callback(
            _rec_update,
            None,
            sg(grads["w"]),
            sg(c_before),
            jnp.int32(n_other),
            sg(rid),
            ordered=True,
        )
        return updates, state

    return optax.GradientTransformation(init, update)


_COUNTING_OPT = None


def counting_optimizer():
    """One shared object so the jitted ``step`` hits its cache across runs."""
    global _COUNTING_OPT
    if _COUNTING_OPT is None:
        _COUNTING_OPT = _make_counting_optimizer()
    return _COUNTING_OPT


# --------------------------------------------------------------------------- seams
class _JrProxy:
    """Delegating proxy for ``jax.random`` that records ``permutation`` calls (eager only)."""

    def __init__(self, real):
        object.__setattr__(self, "_real", real)

    def __getattr__(self, name):
        return getattr(self._real, name)

    def permutation(self, key, x, *a, **k):
        import jax

        out = self._real.permutation(key, x, *a, **k)
        try:
            if not isinstance(out, jax.core.Tracer) and getattr(out, "ndim", 0) >= 1 and getattr(_TLS, "perm", True):
                jax.effects_barrier()  # order this host event after pending callbacks
                arr = np.asarray(out)
                col0 = arr.reshape(arr.shape[0], -1)[:, 0]
                _thread_log().append(("PERM", np.array(col0, copy=True), np.asarray(_key_data(key))))
        except Exception:  # noqa: BLE001 - the proxy must never break the run
            pass
        return out


class Seams:
    """Context manager installing the module-attribute seams; restores on exit."""

    def __init__(self, *, progress: bool, perm_proxy: bool, thread_aware: bool = False):
        self.progress = progress
        self.perm_proxy = perm_proxy
        self.thread_aware = thread_aware  # concurrent group: each caller thread has its own stream
        self._saved = []
        self.stream = io.StringIO()
        self.notes = {}

    def __enter__(self):
        import flowjax.train.data_fit as df
        import flowjax.train.train_utils as tu
        import flowjax.train.variational_fit as vf

        if self.progress:
            from tqdm import tqdm as real_tqdm

            if self.thread_aware:
                default = self.stream

                def fake(*a, **k):
                    return real_tqdm(*a, file=getattr(_TLS, "stream", default), mininterval=0, **k)
            else:
                fake = partial(real_tqdm, file=self.stream, mininterval=0)
            for mod in (df, vf):
                if hasattr(mod, "tqdm"):
                    self._saved.append((mod, "tqdm", mod.tqdm))
                    mod.tqdm = fake
                else:
                    self.notes["tqdm_seam_missing"] = True
        if self.perm_proxy:
            for mod in (df, tu):
                if hasattr(mod, "jr"):
                    self._saved.append((mod, "jr", mod.jr))
                    mod.jr = _JrProxy(mod.jr)
                else:
                    self.notes["jr_seam_missing"] = True
        return self

    def __exit__(self, *exc):
        for mod, name, val in reversed(self._saved):
            setattr(mod, name, val)
        return False


# --------------------------------------------------------------------------- worlds
def script_array(world) -> np.ndarray:
    """Expand the world's compact script (prefix + tail rule) to f32[LMAX]."""
    pre = [float(v) for v in world["script"]]
    tail = world.get("tail", {"kind": "inc", "base": 5000.0})
    out = np.empty((LMAX,), np.float32)
    for i in range(LMAX):
        if i < len(pre):
            out[i] = pre[i]
        else:
            j = i - len(pre)
            if tail["kind"] == "inc":
                out[i] = tail["base"] + j
            elif tail["kind"] == "dec":
                out[i] = tail["base"] - j
            else:
                out[i] = tail["base"]
    return out


def parse_script_value(v):
    if isinstance(v, str):
        return {"NaN": math.nan, "Infinity": math.inf, "-Infinity": -math.inf}[v]
    return float(v)


def normalise_world(world: dict) -> dict:
    w = dict(world)
    w["script"] = [parse_script_value(v) for v in world["script"]]
    return w


def make_dataset(world):
    n, ncols, ccols = world["n"], world["ncols"], world["cond_cols"]
    if ncols == 0:  # scalar rows: x has shape (n,)
        x = np.arange(n, dtype=np.float32)
    else:
        x = np.array(
            [[i + 100 * j for j in range(ncols)] for i in range(n)], dtype=np.float32
        )
    cond = None
    if ccols:
        cond = np.array(
            [[1000 + i + 100 * j for j in range(ccols)] for i in range(n)],
            dtype=np.float32,
        )
    # array FORMS (the statement quantifies over datasets, not over one layout): rows with more than one trailing
    # dimension, and data that is not float32 (float64 / integer numpy arrays); tags stay exactly representable
    if world.get("x_tail") and ncols:
        x = x.reshape((n,) + tuple(world["x_tail"]))
    if world.get("cond_tail") and ccols:
        cond = cond.reshape((n,) + tuple(world["cond_tail"]))
    dt = world.get("data_dtype")
    if dt:
        x = x.astype(dt)
        if cond is not None and dt != "int32":
            cond = cond.astype(dt)
    return x, cond


def make_key(world):
    import jax.random as jr

    if world.get("key_style", "legacy") == "typed":
        return jr.key(world["key_seed"])
    return jr.PRNGKey(world["key_seed"])


def make_dist(world, rid=0):
    import jax.numpy as jnp
    from flowjax.wrappers import NonTrainable

    return {
        "c": jnp.zeros((), jnp.float32),
        "w": jnp.zeros((NMAX,), jnp.float32).at[NMAX - 1].set(float(rid)),
        "script": NonTrainable(jnp.asarray(script_array(world))),
        "aux": jnp.array([7, 8, 9], jnp.int32),
    }


# --------------------------------------------------------------------------- run
class _MemberSeams:
    """Seams of a member of a concurrent group: the module attributes are installed once by
    the group (thread-aware); the member only owns its progress stream."""

    def __init__(self):
        self.stream = io.StringIO()
        self.notes = dict(getattr(_TLS, "group_notes", {}))

    def __enter__(self):
        _TLS.stream = self.stream
        return self

    def __exit__(self, *exc):
        return False


def run_world(world: dict) -> dict:
    """Execute one world; return ``{"events": [...], "out": {...}}`` (plain python/numpy)."""
    if world.get("kind") == "group":
        from sim import concurrent_a

        return concurrent_a.run_group(world)
    return run_single(world)


def run_single(world: dict, rid: int = 0, install_seams: bool = True) -> dict:
    """One training run. ``rid`` > 0: a member of a concurrent group (own event log; the seams
    are installed once by the group, not per member)."""
    import jax

    world = normalise_world(world)
    dist = make_dist(world, rid)
    key = make_key(world)
    log = _LOGS.setdefault(rid, [])
    _TLS.rid = rid
    _TLS.perm = bool(world.get("perm_proxy", True) and world["loop"] == "data")
    if rid:
        jax.effects_barrier()  # events of an interrupted earlier attempt must not land in this log
    log.clear()
    caller_key = np.asarray(_key_data(key)).tolist()
    exception = None
    out_dist, out_losses, progress_len, notes = None, {}, 0, {}
    try:
        with (Seams(
            progress=world.get("show_progress", False),
            perm_proxy=world.get("perm_proxy", True) and world["loop"] == "data",
        ) if install_seams else _MemberSeams()) as seams:
            if world["loop"] == "data":
                from flowjax.train import fit_to_data

                x, cond = make_dataset(world)
                if not world.get("np_inputs", True):
                    import jax.numpy as jnp

                    x = jnp.asarray(x)
                    cond = None if cond is None else jnp.asarray(cond)
                out_dist, losses = fit_to_data(
                    key,
                    dist,
                    x,
                    condition=cond,
                    loss_fn=scripted_data_loss,
                    max_epochs=world["max_epochs"],
                    max_patience=world["max_patience"],
                    batch_size=world["batch_size"],
                    val_prop=world["val_prop"],
                    optimizer=counting_optimizer(),
                    return_best=world["return_best"],
                    show_progress=world.get("show_progress", False),
                )
                out_losses = {
                    "train": [float(v) for v in losses["train"]],
                    "val": [float(v) for v in losses["val"]],
                }
            else:
                from flowjax.train import fit_to_variational_target

                out_dist, losses = fit_to_variational_target(
                    key,
                    dist,
                    scripted_vi_loss,
                    steps=world["steps"],
                    optimizer=counting_optimizer(),
                    return_best=world["return_best"],
                    show_progress=world.get("show_progress", False),
                )
                out_losses = {"vi": [float(v) for v in losses]}
            jax.effects_barrier()
            progress_len = len(seams.stream.getvalue())
            notes = dict(seams.notes)
    except Exception as e:  # noqa: BLE001 - a crash of the loop on valid inputs is reported by the oracle
        exception = f"{type(e).__name__}: {str(e)[:400]}"
        try:
            jax.effects_barrier()
        except Exception:  # noqa: BLE001
            pass
    raw = list(log)
    log.clear()

    events = []
    for seq, ev in enumerate(raw):
        if ev[0] == "LOSS":
            _, x, cond, kd, c, value = ev
            events.append(
                {
                    "seq": seq,
                    "t": "LOSS",
                    "x": None if x is None else x.tolist(),
                    "cond": None if cond is None else cond.tolist(),
                    "key": [int(v) for v in kd.ravel().tolist()],
                    "c": c,
                    "value": value,
                }
            )
        elif ev[0] == "UPDATE":
            _, gw, c_before, n_other = ev
            nz = {int(i): float(gw[i]) for i in np.nonzero(gw)[0]}
            events.append(
                {
                    "seq": seq,
                    "t": "UPDATE",
                    "grad_rows": nz,
                    "grad_finite": bool(np.all(np.isfinite(gw))),
                    "c": c_before,
                    "n_other": n_other,
                }
            )
        else:
            _, col0, kd = ev
            events.append(
                {
                    "seq": seq,
                    "t": "PERM",
                    "col0": col0.tolist(),
                    "key": [int(v) for v in kd.ravel().tolist()],
                }
            )

    if exception is not None:
        return {"events": events, "out": {"struct_ok": False, "losses": {}, "caller_key": caller_key}, "exception": exception}

    # returned model
    struct_ok = isinstance(out_dist, dict) and sorted(out_dist) == [
        "aux",
        "c",
        "script",
        "w",
    ]
    out = {
        "struct_ok": bool(struct_ok),
        "losses": out_losses,
        "caller_key": caller_key,
        "progress_len_nonzero": progress_len > 0,
        "notes": notes,
    }
    if struct_ok:
        from flowjax.wrappers import NonTrainable

        script_node = out_dist["script"]
        out["script_wrapped"] = isinstance(script_node, NonTrainable)
        script_out = np.asarray(_script_of(out_dist))
        script_in = script_array(world)
        out["script_identical"] = bool(
            script_out.dtype == script_in.dtype
            and script_out.shape == script_in.shape
            and script_out.tobytes() == script_in.tobytes()
        )
        aux = np.asarray(out_dist["aux"])
        out["aux_identical"] = bool(
            aux.dtype == np.int32 and aux.tolist() == [7, 8, 9]
        )
        out["c"] = float(out_dist["c"])
        w = np.asarray(out_dist["w"])
        if rid:
            out["rid_intact"] = bool(w[NMAX - 1] == float(rid))
            w = w.copy()
            w[NMAX - 1] = 0.0
        out["w"] = {int(i): float(w[i]) for i in np.nonzero(w)[0]}
        out["w_finite"] = bool(np.all(np.isfinite(w)))
    return {"events": events, "out": out}


# --------------------------------------------------------------------------- history helpers
def classify(events):
    """Split the event list into gradient calls, non-gradient calls and PERM events.

    A LOSS event immediately followed by an UPDATE event is a *gradient call*; a LOSS not
    followed by an UPDATE is a *non-gradient call*. No repo internals are consulted.
    Returns a list of dicts {kind: 'G'|'N'|'P', loss: ev, update: ev|None} in order.
    """
    calls = []
    i = 0
    dangling_updates = 0
    while i < len(events):
        ev = events[i]
        if ev["t"] == "LOSS":
            nxt = events[i + 1] if i + 1 < len(events) else None
            if nxt is not None and nxt["t"] == "UPDATE":
                calls.append({"kind": "G", "loss": ev, "update": nxt})
                i += 2
                continue
            calls.append({"kind": "N", "loss": ev, "update": None})
        elif ev["t"] == "UPDATE":
            dangling_updates += 1
        else:
            calls.append({"kind": "P", "perm": ev})
        i += 1
    return calls, dangling_updates


def row_tags(ev):
    """Tags of the rows of a data LOSS event, with alignment diagnostics.

    Returns (tags:list[int], aligned:bool). ``aligned`` is False if any column of a row, or
    the condition row, disagrees about the row's tag.
    """
    x = ev["x"]
    if x is None:
        return [], True
    tags, aligned = [], True
    cond = ev["cond"]
    for r, row in enumerate(x):
        if not isinstance(row, (list, tuple)):
            row = [row]
        t = [row[j] - 100 * j for j in range(len(row))]
        if any(v != t[0] for v in t) or t[0] != int(t[0]):
            aligned = False
        if cond is not None:
            crow = cond[r]
            ct = [crow[j] - 1000 - 100 * j for j in range(len(crow))]
            if any(v != t[0] for v in ct):
                aligned = False
        tags.append(int(t[0]) if t[0] == t[0] and abs(t[0]) < 1e6 else -1)
    return tags, aligned
