"""Coordinator: spawns worker subprocesses, aggregates results, writes evidence, decides exit.

Exit codes: 0 = every run satisfied every oracle (known findings printed as KNOWN-FINDING);
1 = at least one violation not listed in known_findings.json (VIOLATION line printed);
2 = harness trouble (HARNESS-ERROR line printed) — never reported as a pass.
"""

from __future__ import annotations

import json
import os
import shutil
import subprocess
import sys
import tempfile
import time

from sim import core
from sim.props import SPECS

EVIDENCE_DIR = os.path.join(core.VERIF_DIR, "evidence")
REPLAY_DIR = os.environ.get("VERIF_REPLAY_DIR") or os.path.join(core.VERIF_DIR, "replays")
KNOWN_FILE = os.path.join(core.VERIF_DIR, "known_findings.json")


def load_known():
    try:
        with open(KNOWN_FILE) as f:
            return json.load(f).get("findings", [])
    except FileNotFoundError:
        return []


def match_known(prop, clause, world, known):
    """A violation is 'known' iff an entry with status 'known' matches its property, clause
    and every key of the entry's ``world_match`` (specific input / call site)."""
    for k in known:
        if k.get("status") != "known" or k.get("property") != prop:
            continue
        if k.get("clause") != clause:
            continue
        wm = k.get("world_match", {})
        if all(_get(world, kk) == vv for kk, vv in wm.items()):
            return k
    return None


def _get(d, dotted):
    cur = d
    for part in dotted.split("."):
        if not isinstance(cur, dict) or part not in cur:
            return None
        cur = cur[part]
    return cur


def n_workers():
    try:
        n = len(os.sched_getaffinity(0))
    except AttributeError:
        n = os.cpu_count() or 1
    v = os.environ.get("VERIF_WORKERS")
    if v:
        n = max(1, int(v))
    return max(1, min(n, 16))


def spawn_worker(prop, tier, seed, w, nw, out, soft, buckets, recheck, indices=None, extra_env=None, no_shrink=False):
    cmd = [
        core.PYTHON,
        "-m",
        "sim.worker",
        "--prop", prop,
        "--tier", tier,
        "--seed", str(seed),
        "--worker", str(w),
        "--nworkers", str(nw),
        "--out", out,
        "--soft", str(soft),
        "--buckets", str(buckets),
        "--recheck", str(recheck),
        "--replay-dir", "" if no_shrink else REPLAY_DIR,
    ]
    if indices is not None:
        cmd += ["--indices", ",".join(str(i) for i in indices)]
    if no_shrink:
        cmd += ["--no-shrink"]
    log = open(out + ".log", "w")
    return subprocess.Popen(cmd, cwd=core.VERIF_DIR, env=core.worker_env(extra_env), stdout=log, stderr=subprocess.STDOUT), log


def read_lines(path):
    lines, done = [], None
    prov = {}  # violation lines written before shrinking; superseded by the final line of the same run
    try:
        with open(path) as f:
            for ln in f:
                ln = ln.strip()
                if not ln:
                    continue
                try:
                    o = json.loads(ln)
                except json.JSONDecodeError:
                    continue
                if o.get("done"):
                    done = o
                elif o.get("provisional"):
                    prov[o["idx"]] = o
                else:
                    prov.pop(o.get("idx"), None)
                    lines.append(o)
    except FileNotFoundError:
        pass
    lines.extend(prov.values())
    return lines, done


def run_check(prop, tier, seed=None, scale=1.0):
    spec = SPECS[prop]
    cfg = dict(spec.tiers[tier])
    seed = core.base_seed() if seed is None else seed
    nw = n_workers()
    buckets = max(nw, int(cfg["buckets"] * scale))
    soft = cfg["soft_s"] * scale
    hard = cfg["hard_s"] * max(1.0, scale)
    t0 = time.time()
    work = tempfile.mkdtemp(prefix=f"verif-{prop}-", dir=os.environ.get("VERIF_WORK", None) or _work_root())
    harness_errors = []
    try:
        procs = []
        for w in range(nw):
            out = os.path.join(work, f"w{w}.jsonl")
            p, log = spawn_worker(prop, tier, seed, w, nw, out, soft, buckets, cfg["recheck_every"])
            procs.append((w, p, log, out))
        deadline = time.time() + hard
        for w, p, log, out in procs:
            try:
                rc = p.wait(timeout=max(1.0, deadline - time.time()))
            except subprocess.TimeoutExpired:
                p.kill()
                p.wait()
                rc = "timeout"
            log.close()
            if rc != 0:
                tail = _tail(out + ".log")
                harness_errors.append(f"worker {w} exit={rc}: {tail}")
        all_lines, dones = [], []
        for w, p, log, out in procs:
            lines, done = read_lines(out)
            all_lines.extend(lines)
            if done is None:
                harness_errors.append(f"worker {w} wrote no completion record: {_tail(out + '.log')}")
            else:
                dones.append(done)

        # cross-process determinism sample: re-run a few indices in a fresh interpreter with
        # another PYTHONHASHSEED and compare digests
        ok_lines = [ln for ln in all_lines if "digest" in ln]
        all_idx = sorted({ln["idx"] for ln in ok_lines})
        if spec.engine == "A":
            sample_idx = all_idx[:: max(1, len(all_idx) // 24)][:24]
        else:  # every new structure costs a compilation: take a few indices from three buckets
            K = spec.bucket_k
            bks = sorted({i // K for i in all_idx})
            chosen = {bks[0], bks[len(bks) // 2], bks[-1]} if bks else set()
            sample_idx = [i for i in all_idx if i // K in chosen and i % K < 4]
        det = {"sampled": 0, "mismatch": 0}
        if sample_idx and not harness_errors:
            out = os.path.join(work, "det.jsonl")
            p, log = spawn_worker(prop, tier, seed, 0, 1, out, soft=1e9, buckets=0, recheck=0, indices=sample_idx,
                                  extra_env={"PYTHONHASHSEED": "12345"}, no_shrink=True)
            try:
                rc = p.wait(timeout=hard)
            except subprocess.TimeoutExpired:
                p.kill()
                p.wait()
                rc = "timeout"
            log.close()
            lines2, done2 = read_lines(out)
            if rc != 0 or done2 is None:
                harness_errors.append(f"determinism worker exit={rc}: {_tail(out + '.log')}")
            by_idx = {ln["idx"]: ln for ln in ok_lines}
            for ln in lines2:
                if "digest" not in ln:
                    continue
                det["sampled"] += 1
                if by_idx[ln["idx"]]["digest"] != ln["digest"]:
                    det["mismatch"] += 1
                    harness_errors.append(f"run idx={ln['idx']} is not reproducible across processes (digest differs)")
        for ln in all_lines:
            if "harness_error" in ln:
                harness_errors.append(f"run idx={ln['idx']}: {ln['harness_error'][-600:]}")
        return finish(prop, tier, seed, spec, all_lines, dones, det, harness_errors, time.time() - t0, nw)
    finally:
        shutil.rmtree(work, ignore_errors=True)


def _work_root():
    root = os.path.join(core.VERIF_DIR, "work")
    os.makedirs(root, exist_ok=True)
    return root


def _tail(path, n=800):
    try:
        with open(path) as f:
            return f.read()[-n:].replace("\n", " | ")
    except OSError:
        return ""


def finish(prop, tier, seed, spec, lines, dones, det, harness_errors, wall, nw):
    known = load_known()
    runs = [ln for ln in lines if "digest" in ln]
    viol = [ln for ln in runs if ln.get("violations")]
    unknown, known_hits = [], {}
    for ln in viol:
        k = match_known(prop, ln["clause"], ln.get("world_min") or {}, known)
        # every clause of the run must be covered by the same known entry's clause
        if k is not None and all(v["clause"] == k["clause"] for v in ln["violations"]):
            known_hits.setdefault(k["id"], []).append(ln)
        else:
            unknown.append(ln)

    fired, probes, modes = {}, {}, {}
    ltime = 0
    sigs = set()
    n_nontrivial = 0
    rechecked = 0
    for ln in runs:
        for k, v in ln.get("fired", {}).items():
            fired[k] = fired.get(k, 0) + int(v)
        for k, v in ln.get("probes", {}).items():
            if isinstance(v, bool):
                v = int(v)
            if isinstance(v, (int, float)):
                probes[k] = probes.get(k, 0) + (1 if v else 0)
        modes[ln["mode"]] = modes.get(ln["mode"], 0) + 1
        ltime += ln.get("ltime", 0)
        rechecked += int(bool(ln.get("rechecked")))
        if ln.get("nontrivial"):
            n_nontrivial += 1
            sigs.add(ln["sig"])
    faultfree = sum(1 for ln in runs if not any(ln.get("fired", {}).values()))
    groups = [ln for ln in runs if "sched_sig" in ln]
    concurrency = None
    if groups:
        concurrency = {
            "groups_of_concurrent_callers": len(groups),
            "callers": sum(ln["callers"] for ln in groups),
            "yield_points_offered": sum(ln["yields"] for ln in groups),
            "context_switches_taken": sum(ln["switches"] for ln in groups),
            "distinct_interleavings": len({ln["sched_sig"] for ln in groups}),
            "measure": "an interleaving is the explicit list of (global yield-point number, thread that received the baton); "
                       "distinct = distinct lists over all groups",
        }
    samples = []
    for d in dones:
        for s in d.get("samples", []):
            if len(samples) < 4:
                samples.append(s)
    for ln in (unknown + [x for v in known_hits.values() for x in v])[:2]:
        samples.append({"violation": ln["clause"], "detail": ln["violations"][0]["detail"], "world_min": ln.get("world_min")})

    from sim import evidence

    ev = evidence.build(
        prop=prop,
        tier=tier,
        seed=seed,
        spec=spec,
        runs=len(runs),
        distinct_nontrivial=len(sigs),
        n_nontrivial=n_nontrivial,
        samples=samples,
        fired=fired,
        probes=probes,
        modes=modes,
        faultfree=faultfree,
        ltime=ltime,
        wall=wall,
        nw=nw,
        det=det,
        rechecked=rechecked,
        dones=dones,
        violations=len(unknown),
        known_hits={k: len(v) for k, v in known_hits.items()},
        harness_errors=harness_errors,
        concurrency=concurrency,
    )
    if not os.environ.get("VERIF_NO_EVIDENCE"):
        evidence.write(prop, ev)

    print(
        f"[{prop}/{tier}] seed={seed} runs={len(runs)} nontrivial={n_nontrivial} distinct={len(sigs)} "
        f"modes={modes} wall={wall:.1f}s workers={nw} ltime={ltime}"
    )
    print(f"[{prop}/{tier}] fired={fired}")
    print(f"[{prop}/{tier}] probes={probes}")
    print(f"[{prop}/{tier}] determinism: in-process rechecks={rechecked}, cross-process sampled={det['sampled']} mismatches={det['mismatch']}")
    for kid, lns in sorted(known_hits.items()):
        k = next(x for x in known if x["id"] == kid)
        print(f"KNOWN-FINDING: property={prop} {k['what']} [{len(lns)} runs; e.g. replay={lns[0].get('replay')}]")
    if harness_errors:
        for h in harness_errors[:10]:
            print(f"HARNESS-ERROR property={prop} {h}")
    if unknown:
        seen = set()
        unknown.sort(key=lambda ln: (ln.get("replay") is None, ln["idx"]))
        for ln in unknown:
            if ln["clause"] in seen:
                continue
            seen.add(ln["clause"])
            print(f"VIOLATION property={prop} replay={ln.get('replay')} clause={ln['clause']} idx={ln['idx']} seed={seed} :: {ln['violations'][0]['detail'][:300]}")
        return 1
    if harness_errors or not runs:
        if not runs:
            print(f"HARNESS-ERROR property={prop} no run completed")
        return 2
    return 0


def replay(path):
    """Re-run a replay file's minimised world in a fresh interpreter (this process is fresh:
    bin/check execs python per invocation) and report whether it fails the same way."""
    with open(path) as f:
        rp = json.load(f)
    prop = rp["property"]
    spec = SPECS[prop]
    core.assert_flowjax_from_repo()
    world = rp["world"]
    for w in rp.get("prefix_worlds") or []:
        # process history the failure needs (earlier worlds of the worker that found it)
        try:
            spec.run(w)
        except Exception:  # noqa: BLE001
            pass
    res = spec.run(world)
    V, P, mode = spec.oracle(world, res)
    dg = spec.digest(res)
    clauses = sorted({v["clause"] for v in V})
    print(f"[replay] property={prop} clause_expected={rp['clause']} clauses_now={clauses} digest_match={dg == rp.get('digest')}")
    for v in V[:5]:
        print(f"[replay]   {v['clause']}: {v['detail'][:400]}")
    if rp["clause"] in clauses:
        known = load_known()
        k = match_known(prop, rp["clause"], world, known)
        if k is not None:
            print(f"KNOWN-FINDING: property={prop} {k['what']}")
            return 0
        print(f"VIOLATION property={prop} replay={path}")
        return 1
    if V:
        print(f"VIOLATION property={prop} replay={path} (different clause than recorded)")
        return 1
    print("[replay] not reproduced: the property holds on this world with the current tree")
    return 0
