"""Deterministic scheduler for concurrent callers (baton-passing real threads).

The "nodes" of this simulation are caller threads that each execute one complete training
run of the real loops. Exactly one thread holds the baton at any time; the others are parked
on a condition variable. A thread can lose the baton only at a *yield point*: a ``line`` trace
event (``sys.settrace``) in an eagerly executing frame of ``flowjax/train/*.py`` (frames
entered while jax is tracing are not instrumented: whether a jitted function body runs at all
depends on the jit cache, and the schedule must not). At a yield point the scheduler — not the
OS — decides who runs next, from an explicit switch list or a seeded PRNG, so one schedule is
one exactly repeatable interleaving; the decisions taken are recorded as an explicit switch list
(the replay / minimisation format).
"""

from __future__ import annotations

import os
import random
import sys
import threading


class SchedulerHang(RuntimeError):
    pass


class SimulatedInterrupt(BaseException):
    """Injected at a yield point of a caller thread: the training call is aborted between two
    lines exactly as a KeyboardInterrupt would abort it (BaseException, so the loops' own
    ``except Exception`` handlers - should they grow any - do not swallow it)."""


class Scheduler:
    def __init__(self, n, *, seed=None, p_switch=0.0, explicit=None, max_yields=200000, trace_dirs=None, crash_at=None):
        self.n = n
        self.cv = threading.Condition()
        self.current = -1
        self.alive = set(range(n))
        self.k = 0  # global yield-point counter (advanced only by the baton holder)
        self.taken = []  # [(k, from, to)] switches actually taken
        self.per_thread = [0] * n
        self.rng = random.Random(seed) if seed is not None else None
        self.p = p_switch
        # explicit schedule: {"first": t, "switches": [[k, t], ...], "finish": {"<me>": t}}
        self.explicit = None
        if explicit is not None:
            self.explicit = {int(k): int(t) for k, t in explicit.get("switches", [])}
            self.first = int(explicit.get("first", 0))
            self.finish_to = {int(k): int(v) for k, v in explicit.get("finish", {}).items()}
        self.finished = {}  # me -> thread that received the baton
        self.crash_at = {int(k): int(v) for k, v in (crash_at or {}).items()}  # thread -> own yield number
        self.crashed = {}  # thread -> global yield number at which the interrupt was delivered
        self.max_yields = max_yields
        self.errors = []
        self.trace_dirs = tuple(trace_dirs or ())
        self._clean = None

    # ------------------------------------------------------------------ decisions
    def _decide(self, me):
        if self.explicit is not None:
            t = self.explicit.get(self.k)
            if t is None or t == me or t not in self.alive:
                return me
            return t
        if self.rng is None or len(self.alive) < 2:
            return me
        if self.rng.random() >= self.p:
            return me
        others = sorted(self.alive - {me})
        return others[self.rng.randrange(len(others))]

    # ------------------------------------------------------------------ baton
    def yield_point(self, me):
        self.k += 1
        self.per_thread[me] += 1
        if self.crash_at.get(me) == self.per_thread[me] and me not in self.crashed:
            self.crashed[me] = self.k
            raise SimulatedInterrupt(f"caller {me} interrupted at its yield point {self.per_thread[me]}")
        if self.k > self.max_yields:
            return
        nxt = self._decide(me)
        if nxt == me:
            return
        self.taken.append((self.k, me, nxt))
        with self.cv:
            self.current = nxt
            self.cv.notify_all()
            while self.current != me:
                self.cv.wait()

    def _wait_turn(self, me):
        with self.cv:
            while self.current != me:
                self.cv.wait()

    def _finish(self, me):
        with self.cv:
            self.alive.discard(me)
            if self.alive:
                # deterministic hand-over: the explicit/seeded choice among the survivors
                others = sorted(self.alive)
                if self.explicit is not None:
                    nxt = self.finish_to.get(me, others[0])
                    if nxt not in self.alive:
                        nxt = others[0]
                elif self.rng is not None:
                    nxt = others[self.rng.randrange(len(others))]
                else:
                    nxt = others[0]
                self.finished[me] = nxt
                self.current = nxt
            else:
                self.current = -2
            self.cv.notify_all()

    # ------------------------------------------------------------------ tracing
    def _make_tracer(self, me):
        dirs = self.trace_dirs
        sched = self

        def local(frame, event, arg):
            if event == "line":
                try:
                    sched.yield_point(me)
                except SimulatedInterrupt:
                    raise  # delivered into the traced frame (python then switches tracing off)
                except BaseException as e:  # noqa: BLE001 - scheduler trouble is harness trouble,
                    sched.errors.append((me, "tracer: " + repr(e)))  # never an exception of the loop
                    return None
            return local

        def tracer(frame, event, arg):
            if event != "call":
                return None
            fn = frame.f_code.co_filename
            if not fn.startswith(dirs):
                return None
            try:
                if not sched._trace_clean():
                    return None
            except BaseException as e:  # noqa: BLE001
                sched.errors.append((me, "tracer: " + repr(e)))
                return None
            return local

        return tracer

    def rearm(self, me):
        """Called by caller thread ``me`` after an interrupt was delivered to it (python unsets the
        trace function of a thread whose trace function raised)."""
        sys.settrace(self._make_tracer(me))

    def _trace_clean(self):
        if self._clean is None:
            import jax._src.core as jcore

            self._clean = jcore.trace_state_clean
        return self._clean()

    # ------------------------------------------------------------------ run
    def run(self, fns, timeout=600.0):
        """Run ``fns[i]()`` on thread i under this scheduler; returns the list of results.
        An exception in a thread is re-raised here (it is harness trouble: the run functions
        catch the loops' own exceptions themselves)."""
        assert len(fns) == self.n
        results = [None] * self.n

        def body(i):
            try:
                self._wait_turn(i)
                sys.settrace(self._make_tracer(i))
                try:
                    results[i] = fns[i]()
                finally:
                    sys.settrace(None)
            except BaseException as e:  # noqa: BLE001
                self.errors.append((i, repr(e)))
            finally:
                self._finish(i)

        threads = [threading.Thread(target=body, args=(i,), name=f"sim-caller-{i}", daemon=True) for i in range(self.n)]
        for t in threads:
            t.start()
        first = 0
        if self.explicit is not None:
            first = self.first if 0 <= self.first < self.n else 0
        elif self.rng is not None:
            first = self.rng.randrange(self.n)
        self.first_taken = first
        with self.cv:
            self.current = first
            self.cv.notify_all()
        for t in threads:
            t.join(timeout)
            if t.is_alive():
                raise SchedulerHang(f"thread {t.name} did not finish within {timeout}s (k={self.k}, current={self.current})")
        if self.errors:
            raise RuntimeError(f"caller thread failed: {self.errors}")
        return results

    def explicit_schedule(self):
        """The decisions actually taken, in the explicit replay / minimisation form."""
        return {
            "first": self.first_taken,
            "switches": [[k, t] for (k, _f, t) in self.taken],
            "finish": {str(m): t for m, t in sorted(self.finished.items())},
            "crash_at": {str(m): v for m, v in sorted(self.crash_at.items())},
        }


def train_dirs():
    import flowjax.train as ft

    return (os.path.dirname(os.path.abspath(ft.__file__)) + os.sep,)
