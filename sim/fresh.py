"""Fresh-process execution of a sequence of worlds (replay files must reproduce in a new interpreter).

A violation that depends on what the *process* did before (a stale module-level cache, a flag left
behind by a failed call) cannot be minimised honestly inside the worker that found it: every
shrink candidate runs in the already-contaminated process. So after in-process shrinking the
worker asks a fresh interpreter; if the minimised world alone does not fail there, the replay
file gets the shortest suffix of the worker's earlier worlds (its process history) that makes the
failure reproduce, and ``bin/check --replay`` runs that prefix first.

Usage (internal): python -m sim.fresh <prop> <json-file>   # file: {"prefix": [worlds], "world": world}
prints one JSON line: {"clauses": [...], "digest": ..., "details": {...}}
"""

from __future__ import annotations

import json
import os
import subprocess
import sys
import tempfile

from sim import core


def run_sequence(prop, prefix, world):
    """In this process: run the prefix worlds (results ignored), then ``world``; oracle on the last."""
    from sim.props import SPECS

    spec = SPECS[prop]
    for w in prefix:
        try:
            spec.run(w)
        except Exception:  # noqa: BLE001 - history only
            pass
    res = spec.run(world)
    V, P, mode = spec.oracle(world, res)
    return res, V, P, mode


def in_fresh_process(prop, prefix, world, timeout=900):
    """Returns {"clauses": [...], "digest": str, "details": {clause: detail}} or None on trouble."""
    fd, path = tempfile.mkstemp(prefix="verif-fresh-", suffix=".json", dir=os.environ.get("VERIF_WORK") or None)
    try:
        with os.fdopen(fd, "w") as f:
            f.write(json.dumps(core.jsonable({"prefix": prefix, "world": world})))
        p = subprocess.run([core.PYTHON, "-m", "sim.fresh", prop, path], cwd=core.VERIF_DIR, env=core.worker_env(),
                           capture_output=True, text=True, timeout=timeout)
        for ln in reversed(p.stdout.splitlines()):
            if ln.startswith("{"):
                return json.loads(ln)
        return None
    except (subprocess.TimeoutExpired, OSError, json.JSONDecodeError):
        return None
    finally:
        try:
            os.unlink(path)
        except OSError:
            pass


def settle_replay(prop, clause, mini, original, history, budget=10):
    """Decide what the replay file must contain so that it fails with ``clause`` in a fresh process.

    Returns (world, prefix, note, digest of the failing fresh run or None). ``history`` = worlds this worker executed before ``original``.
    """
    used = 0
    last = {}

    def fails(prefix, w):
        nonlocal used
        used += 1
        r = in_fresh_process(prop, prefix, w)
        ok = r is not None and clause in r["clauses"]
        if ok:
            last["digest"] = r["digest"]
        return ok

    if fails([], mini):
        return mini, [], "minimised world reproduces alone in a fresh process", last.get("digest")
    if mini is not original and fails([], original):
        return original, [], "only the un-minimised world reproduces alone in a fresh process (in-process shrinking was contaminated by process history)", last.get("digest")
    if not history:
        return mini, [], "NOT reproduced in a fresh process (no earlier worlds in this worker)", None
    # the failure needs process history: shortest suffix of the worker's earlier worlds, by doubling
    k, found = 1, None
    while used < budget:
        pre = history[-k:]
        if fails(pre, original):
            found = pre
            break
        if k >= len(history):
            break
        k = min(len(history), k * 2)
    if found is None:
        return mini, [], "NOT reproduced in a fresh process, with or without the worker's earlier worlds", None
    # drop single prefix worlds while it still fails (bounded)
    i = 0
    while i < len(found) and used < budget and len(found) > 1:
        cand = found[:i] + found[i + 1 :]
        if fails(cand, original):
            found = cand
        else:
            i += 1
    return original, found, f"needs process history: {len(found)} earlier world(s) of the same worker must run first", last.get("digest")


def main(argv):
    prop, path = argv[0], argv[1]
    with open(path) as f:
        job = json.load(f)
    core.assert_flowjax_from_repo()
    from sim.props import SPECS

    res, V, _P, _mode = run_sequence(prop, job["prefix"], job["world"])
    out = {"clauses": sorted({v["clause"] for v in V}), "digest": SPECS[prop].digest(res),
           "details": {v["clause"]: v["detail"][:400] for v in V}}
    print(json.dumps(core.jsonable(out)))
    return 0


if __name__ == "__main__":
    sys.exit(main(sys.argv[1:]))
