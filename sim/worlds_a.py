"""World generators for engine A. ``world_for(prop, tier, seed, idx)`` is a pure function.

A *bucket* (shape-determining knobs) is drawn from ``rng(seed, prop, tier, 'bucket', idx // K)``
and the rest of the world from ``rng(seed, prop, tier, 'run', idx)`` so that consecutive run
indices share compiled shapes.
"""

from __future__ import annotations

import math

from sim.core import rng_for

VAL_GRID = [0.05, 0.1, 0.15, 0.2, 0.25, 0.3, 1 / 3, 0.4, 0.5, 0.6, 2 / 3, 0.75, 0.8, 0.9, 0.95]
K_BUCKET = {"C15": 6, "C16": 16}

# every (n, batch_size) pair of C15's stated range, in a fixed order
C15_PAIRS = [(n, b) for n in range(2, 61) for b in range(1, n + 6)]


def valid_val_props(n):
    """val_prop values for which BOTH roundings of val_prop*n leave both parts non-empty
    (the property's precondition, stated independently of the repo's rounding)."""
    out = []
    for vp in VAL_GRID:
        lo, hi = math.floor(vp * n + 1e-9), math.ceil(vp * n - 1e-9)
        if lo >= 1 and hi <= n - 1:
            out.append(vp)
    return out


def predicted_batches(n, val_prop, batch_size):
    """My own model of the split — used ONLY to aim scripted values at validation calls;
    no oracle depends on it."""
    n_val = round(val_prop * n)
    n_train = n - n_val
    k = n_train // min(batch_size, n_train)
    m = n_val // min(batch_size, n_val)
    return k, m


def _fault_value(rng):
    return rng.choices(["Infinity", "-Infinity", "NaN"], weights=[4, 3, 3])[0]


def _val_sequence(rng, L):
    pool = rng.sample(range(-30, 31), L) if L <= 61 else list(range(L))
    v = [float(x) for x in pool]
    faults = {"loss_nonfinite": 0, "loss_tie": 0, "plateau": 0, "near_tie": 0}
    if L and rng.random() < 0.25:
        for _ in range(rng.choice([1, 1, 2])):
            v[rng.randrange(L)] = _fault_value(rng)
            faults["loss_nonfinite"] += 1
    if L >= 2 and rng.random() < 0.2:
        i, j = rng.sample(range(L), 2)
        v[j] = v[i]
        faults["loss_tie"] += 1
    if L >= 2 and rng.random() < 0.04:
        v = [v[0]] * L
        faults["plateau"] += 1
    if L >= 2 and rng.random() < 0.2:
        # near-tie: two DISTINCT losses closer than any sensible tolerance (strict oracle applies)
        i, j = rng.sample(range(L), 2)
        if isinstance(v[i], float):
            kind = rng.choice(["rel", "rel", "abs0"])
            if kind == "rel" and v[i] != 0.0:
                v[j] = v[i] * (1.0 + rng.choice([1, -1]) * rng.choice([2e-6, 5e-7]))
            else:
                v[i] = 0.0
                v[j] = rng.choice([1, -1]) * rng.choice([1e-9, 1e-12, 1e-30])
            faults["near_tie"] = 1
    return v, faults


def _pick_L(rng, tier):
    if rng.random() < (0.85 if tier == "quick" else 0.7):
        return rng.choice([0, 1, 2, 2, 3, 3, 4, 4, 5, 5, 6, 6, 7, 7])
    return rng.randint(8, 12 if tier == "quick" else 20)


def _common_knobs(rng):
    return {
        "return_best": rng.random() < 0.5,
        "show_progress": rng.random() < 0.2,
    }


def _bucket_c16(brng):
    if brng.random() < 0.45:
        return {"loop": "vi", "key_style": brng.choice(["legacy", "typed"])}
    n = brng.randint(3, 14)
    vp = brng.choice(valid_val_props(n))
    bs = brng.choice([1, 2, 3, 4, n + 2, brng.randint(1, n + 5)])
    return {
        "loop": "data",
        "n": n,
        "val_prop": vp,
        "batch_size": bs,
        "ncols": brng.choice([1, 1, 2]),
        "cond_cols": brng.choice([0, 0, 1]),
        "key_style": brng.choice(["legacy", "legacy", "typed"]),
        "np_inputs": brng.random() < 0.7,
    }


_ENUM = []


def c16_enumerated():
    """Systematic block at the start of the thorough tier: every ordering of L distinct losses
    for L <= 7 (the property's stated range), every max_patience 0..L (data loop), max_epochs /
    steps in {L, L+1} (and L-1 for L <= 5), both return_best values, both loops. A run with
    max_epochs = m < L only ever sees the first m losses, and the loops compare losses only with
    each other, so it behaves as the rank-compressed ordering of length m with max_epochs = m:
    with m in {L, L+1} for every L <= 7 the block covers every (ordering, max_patience,
    max_epochs 0..L+1, return_best) of the stated range up to that equivalence.
    (A supplement to the seeded search, not a replacement.)"""
    if _ENUM:
        return _ENUM
    from itertools import permutations

    for L in range(0, 8):
        for loop in ("vi", "data"):
            for perm in permutations(range(L)):
                pats = [None] if loop == "vi" else list(range(0, L + 1))
                for pat in pats:
                    ms = {L, L + 1} | ({max(L - 1, 0)} if L <= 5 else set())
                    for m in sorted(ms):
                        for rb in (True, False):
                            _ENUM.append((loop, L, perm, pat, m, rb))
    return _ENUM


def _enum_world_c16(idx):
    loop, L, perm, pat, m, rb = c16_enumerated()[idx]
    v = [float(x) for x in perm]
    w = {"engine": "A", "prop": "C16", "idx": idx, "loop": loop, "key_style": "legacy", "key_seed": idx, "return_best": rb,
         "show_progress": False, "tail": {"kind": "inc", "base": 5000.0}, "faults": {}, "enumerated": True}
    if loop == "vi":
        w["steps"] = m
        w["script"] = v
    else:
        w.update({"n": 6, "val_prop": 0.5, "batch_size": 3, "ncols": 1, "cond_cols": 0, "np_inputs": True, "max_epochs": m, "max_patience": pat})
        script = [1000.0 + i for i in range(L + 2)]
        for e in range(L):
            script[e + 1] = v[e]
        w["script"] = script
        w["aimed_val"] = v
    return w


def world_c16(tier, seed, idx):
    w = _world_c16(tier, seed, idx)
    w["idx"] = idx
    return w


def _world_c16(tier, seed, idx):
    if tier == "thorough":
        n_enum = len(c16_enumerated())
        if idx < n_enum:
            return _enum_world_c16(idx)
        idx = idx - n_enum + (1 << 20)  # keep the random part disjoint from the quick tier's indices
    return _world_c16_seeded(tier, seed, idx)


def _world_c16_seeded(tier, seed, idx):
    K = K_BUCKET["C16"]
    b = _bucket_c16(rng_for(seed, "C16", tier, "bucket", idx // K))
    rng = rng_for(seed, "C16", tier, "run", idx)
    w = {"engine": "A", "prop": "C16", "idx": idx}
    w.update(b)
    w["key_seed"] = rng.randrange(2**31)
    L = _pick_L(rng, tier)
    v, faults = _val_sequence(rng, L)
    # RELATED HISTORY (own random stream, so the other worlds are those of the earlier generator): a quarter of the
    # runs re-use a prefix of the loss sequence of the run executed just before them in the same process (same bucket,
    # same loop) and then depart from it - the shape of history under which state carried over between calls
    # (a memoised running minimum, a cached argmin, a resumable counter) would be trusted although it is stale
    rel = rng_for(seed, "C16", tier, "related", idx)
    if idx % K != 0 and rel.random() < 0.25:
        prev = _world_c16_seeded(tier, seed, idx - 1)
        pv = prev.get("aimed_val") if prev.get("loop") == "data" else prev.get("script")
        if pv:
            j = rel.randint(1, len(pv))
            fresh = [x for x in v if x not in pv[:j]]
            extra = [float(x) for x in rel.sample(range(-60, -30), 3)]  # new minima after the shared prefix
            tail = fresh[: max(0, L - j)]
            if rel.random() < 0.6:
                tail.insert(rel.randint(0, len(tail)), extra[0])
            v = list(pv[:j]) + tail
            L = len(v)
            faults["related_history"] = 1
    w.update(_common_knobs(rng))
    w["tail"] = rng.choice(
        [{"kind": "inc", "base": 5000.0}, {"kind": "inc", "base": 5000.0}, {"kind": "dec", "base": -5000.0}, {"kind": "const", "base": 0.0}]
    )
    if b["loop"] == "vi":
        w["steps"] = 0 if rng.random() < 0.05 else rng.randint(max(0, L - 2), L + 1)
        w["script"] = v
    else:
        k, _m = predicted_batches(b["n"], b["val_prop"], b["batch_size"])
        w["max_epochs"] = 0 if rng.random() < 0.05 else rng.randint(max(0, L - 2), L + 1)
        w["max_patience"] = rng.randint(0, max(L, 1))
        script = [1000.0 + i for i in range((L + 1) * k + 1)]
        for e in range(L):
            script[(e + 1) * k] = v[e]
        if rng.random() < 0.1 and len(script) > 1:  # a non-finite *training* loss
            pos = rng.randrange(len(script))
            if pos % k != 0 or pos == 0:
                script[pos] = _fault_value(rng)
                faults["train_loss_nonfinite"] = 1
        w["script"] = script
        w["aimed_val"] = v
    w["faults"] = faults
    return w


def _bucket_c15(brng, tier, bidx):
    if tier == "thorough" and bidx < len(C15_PAIRS):
        n, bs = C15_PAIRS[bidx]
    else:
        n = brng.randint(2, 60)
        r = brng.random()
        if r < 0.15:
            bs = 1
        elif r < 0.25:
            bs = brng.randint(n, n + 5)
        elif r < 0.45:
            bs = brng.randint(1, min(n + 5, 6))
        else:
            bs = brng.randint(1, n + 5)
    vp = brng.choice(valid_val_props(n))
    return {
        "loop": "data",
        "n": n,
        "batch_size": bs,
        "val_prop": vp,
        "ncols": brng.choice([0, 1, 2, 3]),
        "cond_cols": brng.choice([0, 1, 2]),
        "key_style": brng.choice(["legacy", "legacy", "typed"]),
        "np_inputs": brng.random() < 0.7,
    }


def world_c15(tier, seed, idx):
    K = K_BUCKET["C15"]
    b = _bucket_c15(rng_for(seed, "C15", tier, "bucket", idx // K), tier, idx // K)
    fr = rng_for(seed, "C15", tier, "forms-bucket", idx // K)  # own stream: the other knobs are those of the earlier generator
    if fr.random() < 0.2:
        tails = {2: [[2, 1], [1, 2]], 3: [[3, 1], [1, 3, 1]]}
        if b["ncols"] in tails:
            b["x_tail"] = fr.choice(tails[b["ncols"]])
        if b["cond_cols"] == 2 and fr.random() < 0.5:
            b["cond_tail"] = [2, 1]
    if fr.random() < 0.2:
        b["data_dtype"] = fr.choice(["float64", "int32", "float64"])
    rng = rng_for(seed, "C15", tier, "run", idx)
    w = {"engine": "A", "prop": "C15", "idx": idx}
    w.update(b)
    w["key_seed"] = rng.randrange(2**31)
    w.update(_common_knobs(rng))
    w["max_epochs"] = rng.choice([1, 2, 2, 3, 3, 4])
    w["max_patience"] = rng.choice([0, 1, 2, 4])
    script = [float(rng.randint(-50, 50)) for _ in range(24)]
    faults = {"loss_nonfinite": 0}
    if rng.random() < 0.25:
        script[rng.randrange(len(script))] = _fault_value(rng)
        faults["loss_nonfinite"] += 1
    w["script"] = script
    w["tail"] = rng.choice([{"kind": "dec", "base": -5000.0}, {"kind": "dec", "base": -5000.0}, {"kind": "inc", "base": 5000.0}])
    w["faults"] = faults
    return w


def single_world_for(prop, tier, seed, idx):
    if prop == "C15":
        return world_c15(tier, seed, idx)
    if prop == "C16":
        return world_c16(tier, seed, idx)
    raise KeyError(prop)


# run indices whose world is a *group of concurrent callers* (sim/concurrent_a.py): the last
# GROUP_SLOTS indices of every bucket. The members are the worlds of the bucket's other indices
# (same shapes, hence warm jit caches), the interleaving is decided by a seeded schedule.
GROUP_SLOTS = {"C15": 1, "C16": 2}


def is_group_idx(prop, tier, idx):
    K = K_BUCKET[prop]
    if prop == "C16" and tier == "thorough" and idx < len(c16_enumerated()):
        return False
    return idx % K >= K - GROUP_SLOTS[prop]


def group_world(prop, tier, seed, idx):
    K = K_BUCKET[prop]
    rng = rng_for(seed, prop, tier, "group", idx)
    base = (idx // K) * K
    pool = [i for i in range(base, base + K) if not is_group_idx(prop, tier, i) and not is_twin_idx(prop, tier, i)]
    n = rng.choice([2, 2, 2, 3])
    picks = rng.sample(pool, n)
    members = []
    for j, i in enumerate(picks):
        m = single_world_for(prop, tier, seed, i)
        if rng.random() < 0.3 and j > 0:  # two callers with the very same key, data and knobs
            m = dict(members[0])
        members.append(m)
    p = rng.choice([0.02, 0.05, 0.1, 0.25, 0.5, 1.0])
    sched = {"seed": rng.randrange(2**31), "p": p}
    if rng.random() < 0.4:
        # interrupt-and-restart fault: one caller is aborted between two lines of the loop (as by
        # Ctrl-C) at its k-th yield point, k log-uniform, and calls again with the same arguments
        import math as _m

        who = rng.randrange(n)
        sched["crash_at"] = {str(who): int(round(_m.exp(rng.uniform(0.0, _m.log(1200.0)))))}
    return {
        "engine": "A",
        "prop": prop,
        "idx": idx,
        "kind": "group",
        "loop": "group",
        "members": members,
        "sched": sched,
    }


# C15 only: one run index in 102 (every 17th bucket, so the slots rotate over the workers) is a
# sequence-versus-alone TWIN on a real flowjax model (sim/twin.py)
TWIN_PERIOD, TWIN_SLOT = 102, 4


def is_twin_idx(prop, tier, idx):
    return prop == "C15" and idx % TWIN_PERIOD == TWIN_SLOT


def twin_world(tier, seed, idx):
    import copy

    from sim import worlds_b

    rng = rng_for(seed, "C15", tier, "twin", idx)
    src = rng.choice(["C18", "C18", "C18", "C12", "C09", "C11"])
    j = rng.randrange(100000)
    inner = None
    for _ in range(200):
        cand = worlds_b.world_for(src, "quick", seed, j)
        if cand["loop"] == "data" and cand.get("max_epochs", 0) >= 1 and not cand.get("use_defaults") and cand.get("loss") != "contrastive":
            inner = cand
            break
        j += 1
    if inner is None:  # cannot happen for these generators; keep the slot an ordinary run
        return None
    inner["max_epochs"] = min(inner["max_epochs"], 2)
    if src == "C18" and not inner.get("init_perturb") and inner["model"]["kind"] != "named" and rng.random() < 0.7:
        inner["init_perturb"] = {"seed": rng.randrange(2**31), "scale": rng.choice([0.5, 2.0])}  # away from the identity initialisation
    before = []
    sib = worlds_b.sibling_config(inner["model"], rng)
    if sib is not None:
        w = copy.deepcopy(inner)
        for k in ("prelude", "prelude_use", "prelude_train", "history"):
            w.pop(k, None)
        w["model"] = worlds_b._fill_values(sib, rng)
        w["max_epochs"] = 1
        w["faults"] = []
        before.append(w)
    else:
        other = worlds_b.world_for(src, "quick", seed, j + 1 + rng.randrange(50))
        other["max_epochs"] = min(other.get("max_epochs", 1), 1)
        before.append(other)
    return {"engine": "A", "prop": "C15", "idx": idx, "kind": "twin", "loop": "twin", "inner": inner, "before": before}


def world_for(prop, tier, seed, idx):
    if is_twin_idx(prop, tier, idx):
        w = twin_world(tier, seed, idx)
        if w is not None:
            return w
        return single_world_for(prop, tier, seed, idx)
    if is_group_idx(prop, tier, idx):
        return group_world(prop, tier, seed, idx)
    return single_world_for(prop, tier, seed, idx)


# ------------------------------------------------------------------ signatures / triviality
def signature(world, result, probes, mode):
    """Run signature used to count distinct non-trivial runs (see evidence 'rule')."""
    out = result["out"]
    if result.get("exception"):
        return ("exception", world["loop"], result["exception"][:60])
    if world["loop"] == "vi":
        losses = out["losses"]["vi"]
        rank = _rank_pattern(losses)
        return ("vi", world["steps"], world["return_best"], rank, mode, world["key_style"])
    val = out["losses"]["val"]
    n_g = sum(1 for e in result["events"] if e["t"] == "UPDATE")
    return (
        "data",
        world["n"],
        world["batch_size"],
        round(world["val_prop"], 3),
        world["cond_cols"],
        world["ncols"],
        len(val),
        n_g,
        world["max_epochs"],
        world["max_patience"],
        world["return_best"],
        _rank_pattern(val),
        mode,
    )


def _rank_pattern(xs):
    def key(v):
        if isinstance(v, float) and math.isnan(v):
            return (2, 0.0)
        return (1, v)

    order = sorted(set(key(v) for v in xs))
    return tuple(order.index(key(v)) if key(v)[0] == 1 else -1 for v in xs)


def nontrivial(world, result):
    """At least 2 epochs/steps and at least one gradient step."""
    if result.get("exception"):
        return False
    n_g = sum(1 for e in result["events"] if e["t"] == "UPDATE")
    if world["loop"] == "vi":
        return len(result["out"]["losses"]["vi"]) >= 2 and n_g >= 1
    return len(result["out"]["losses"]["val"]) >= 2 and n_g >= 1
