#!/bin/bash
# tools_soak.sh <first_seed> <last_seed> [tier] [props...] — multi-seed soak; prints only alarms and a summary line per run.
# Evidence files are NOT written (VERIF_NO_EVIDENCE=1): soak output is not evidence.
first=$1; last=$2; tier=${3:-quick}; shift 3 2>/dev/null
props=${@:-C15 C16 C09 C11 C12 C18}
export VERIF_NO_EVIDENCE=1
for seed in $(seq $first $last); do
  for p in $props; do
    out=$(VERIF_SEED=$seed bin/check $p $tier 2>&1); rc=$?
    echo "seed=$seed prop=$p tier=$tier rc=$rc $(echo "$out" | grep -m1 '^\[' | cut -c1-160)"
    echo "$out" | grep -E '^(VIOLATION|HARNESS-ERROR|KNOWN-FINDING)' | cut -c1-600
  done
done
