"""Registry: property id -> engine plumbing and tier budgets."""

from __future__ import annotations


class Spec:
    def __init__(self, pid, engine, tiers, bucket_k):
        self.id = pid
        self.engine = engine
        self.tiers = tiers
        self.bucket_k = bucket_k

    # ---- engine dispatch (imports are lazy so the coordinator never imports jax)
    def world_for(self, tier, seed, idx):
        if self.engine == "A":
            from sim import worlds_a

            return worlds_a.world_for(self.id, tier, seed, idx)
        from sim import worlds_b

        return worlds_b.world_for(self.id, tier, seed, idx)

    def run(self, world):
        if world.get("kind") == "twin":
            from sim import twin

            return twin.run_twin(world)
        if world.get("engine") == "B" and self.engine == "A":
            # the bare engine-B run of a twin, executed alone (fresh interpreter)
            from sim import engine_b

            return engine_b.run_world(world)
        if self.engine == "A":
            from sim import engine_a

            return engine_a.run_world(world)
        from sim import engine_b

        return engine_b.run_world(world)

    def oracle(self, world, result):
        if world.get("kind") == "twin":
            from sim import twin

            return twin.oracle_twin(world, result)
        if world.get("engine") == "B" and self.engine == "A":
            return [], {}, "strict"
        if world.get("kind") == "group":
            from sim import concurrent_a

            return concurrent_a.oracle_group(self.id, world, result)
        if self.engine == "A":
            from sim import oracle_a

            return getattr(oracle_a, "oracle_" + self.id.lower())(world, result)
        from sim import oracle_b

        return getattr(oracle_b, "oracle_" + self.id.lower())(world, result)

    def signature(self, world, result, probes, mode):
        if world.get("kind") == "twin":
            from sim import twin

            return twin.signature(world, result, probes, mode)
        if world.get("kind") == "group":
            from sim import concurrent_a

            return concurrent_a.signature(world, result, probes, mode)
        if self.engine == "A":
            from sim import worlds_a

            return worlds_a.signature(world, result, probes, mode)
        from sim import worlds_b

        return worlds_b.signature(self.id, world, result, probes, mode)

    def nontrivial(self, world, result):
        if world.get("kind") == "twin":
            from sim import twin

            return twin.nontrivial(world, result)
        if world.get("kind") == "group":
            from sim import concurrent_a

            return concurrent_a.nontrivial(world, result)
        if self.engine == "A":
            from sim import worlds_a

            return worlds_a.nontrivial(world, result)
        from sim import worlds_b

        return worlds_b.nontrivial(self.id, world, result)

    def shrink_candidates(self, world):
        if world.get("kind") == "twin":
            from sim import twin

            return twin.shrink_candidates(world)
        if world.get("kind") == "group":
            from sim import concurrent_a

            return concurrent_a.shrink_candidates(world)
        if self.engine == "A":
            from sim import shrink

            return shrink.candidates_a(world)
        from sim import shrink

        return shrink.candidates_b(world)

    def fired(self, world, result, probes):
        """How often each fault kind actually fired in this run."""
        if world.get("kind") == "twin":
            from sim import twin

            return twin.fired(world, result, probes)
        if world.get("kind") == "group":
            from sim import concurrent_a

            return concurrent_a.fired(world, result, probes)
        if self.engine == "A":
            from sim import faults_a

            return faults_a.fired(world, result, probes)
        from sim import engine_b

        return engine_b.fired(world, result)

    def digest(self, result):
        if result.get("kind") == "twin":
            from sim import twin

            return twin.digest(result)
        if "steps" in result and "loss_events" in result:
            from sim import engine_b

            return engine_b.result_digest(result)
        if self.engine == "A":
            from sim.core import digest

            return digest({"events": result["events"], "out": result["out"]})
        from sim import engine_b

        return engine_b.result_digest(result)

    def sample_view(self, world, result, probes, mode):
        if world.get("kind") == "twin":
            from sim import twin

            return twin.sample_view(world, result, probes, mode)
        if world.get("kind") == "group":
            from sim import concurrent_a

            return concurrent_a.sample_view(world, result, probes, mode)
        if self.engine == "A":
            from sim import faults_a

            return faults_a.sample_view(world, result, probes, mode)
        from sim import engine_b

        return engine_b.sample_view(world, result, probes, mode)

    def prepare_for_shrink(self, world, result):
        """World the shrinker starts from (a group gets the schedule actually taken, explicit)."""
        if world.get("kind") == "group" and not result.get("exception"):
            from sim import concurrent_a

            return concurrent_a.with_explicit_schedule(world, result)
        return world

    def logical_time(self, result):
        if result.get("kind") == "twin":
            return int(result.get("n_loss_events", 0))
        if result.get("kind") == "group":
            from sim import concurrent_a

            return concurrent_a.logical_time(result)
        if self.engine == "A":
            return sum(1 for e in result["events"] if e["t"] == "LOSS")
        return int(result.get("n_loss_events", 0))


# budgets: max buckets overall, soft deadline (s) after which workers start no new bucket,
# hard timeout (s) per worker process
SPECS = {
    "C15": Spec(
        "C15",
        "A",
        {
            "quick": {"buckets": 640, "soft_s": 55, "hard_s": 240, "recheck_every": 6},
            "thorough": {"buckets": 2124 + 1200, "soft_s": 900, "hard_s": 1500, "recheck_every": 8},
        },
        bucket_k=6,
    ),
    "C16": Spec(
        "C16",
        "A",
        {
            "quick": {"buckets": 640, "soft_s": 55, "hard_s": 240, "recheck_every": 16},
            # 13 262 buckets hold the enumerated block (every ordering, L <= 7); the rest is seeded search
            "thorough": {"buckets": 13262 + 6400, "soft_s": 2400, "hard_s": 3600, "recheck_every": 32},
        },
        bucket_k=16,
    ),
    "C12": Spec("C12", "B", {
        "quick": {"buckets": 480, "soft_s": 100, "hard_s": 480, "recheck_every": 6},
        # the first 106 buckets are the enumerated freeze block (worlds_b.c12_freeze_grid: 844 single-position freeze plans)
        "thorough": {"buckets": 106 + 6400, "soft_s": 1800, "hard_s": 3000, "recheck_every": 12},
    }, bucket_k=8),
    "C11": Spec("C11", "B", {
        "quick": {"buckets": 480, "soft_s": 100, "hard_s": 480, "recheck_every": 6},
        "thorough": {"buckets": 6400, "soft_s": 1200, "hard_s": 2400, "recheck_every": 12},
    }, bucket_k=8),
    "C09": Spec("C09", "B", {
        "quick": {"buckets": 480, "soft_s": 100, "hard_s": 480, "recheck_every": 6},
        # the first 760 buckets are the enumerated configuration grid (worlds_b.c09_grid), the rest is seeded search
        "thorough": {"buckets": 760 + 6400, "soft_s": 1800, "hard_s": 3000, "recheck_every": 12},
    }, bucket_k=8),
    "C18": Spec("C18", "B", {
        "quick": {"buckets": 480, "soft_s": 100, "hard_s": 480, "recheck_every": 6},
        # the first 273 buckets are the enumerated block: 91 model templates x 36 boundary symbols (worlds_b.c18_templates)
        "thorough": {"buckets": 273 + 6400, "soft_s": 1500, "hard_s": 2700, "recheck_every": 12},
    }, bucket_k=12),
}
