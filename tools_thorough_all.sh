#!/bin/bash
# tools_thorough_all.sh [props...] — thorough tier of the given checks one after another, no evidence written (soak use).
HERE="$(cd "$(dirname "${BASH_SOURCE[0]}")" && pwd)"; cd "$HERE"
export VERIF_NO_EVIDENCE=1 VERIF_REPLAY_DIR=${VERIF_REPLAY_DIR:-/tmp/thor-replays}
for p in "${@:-C12 C11 C15 C16}"; do
  out=$(bin/check $p thorough 2>&1); rc=$?
  echo "prop=$p tier=thorough rc=$rc"; echo "$out" | grep -E '^\[|^(VIOLATION|HARNESS-ERROR|KNOWN-FINDING)' | cut -c1-900
done
