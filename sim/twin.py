"""Sequence-versus-alone twins on real models (C15: "the same key reproduces the same run").

A *twin world* is ``{"kind": "twin", "inner": <engine-B world, fit_to_data loop>, "before":
[<engine-B worlds>]}``. In the worker process — i.e. after everything that process has done so
far — the ``before`` worlds (sibling configurations of the same model: an earlier experiment of a
sweep, differing only in python-valued settings) are trained, then ``inner`` is trained with its
own process-history preludes. In a *fresh interpreter* the very same call (``inner`` without any
history) is executed alone. Same key, same data, same model, same knobs: the two runs — every
parameter state and gradient offered to the optimiser, every loss value, the returned model — must
be bit-identical. A difference means something leaked from an earlier call into this one.
"""

from __future__ import annotations

import copy

from sim import core

HISTORY_KEYS = ("prelude", "prelude_use", "prelude_train", "history")


def strip_history(world):
    w = copy.deepcopy(world)
    for k in HISTORY_KEYS:
        w.pop(k, None)
    return w


def run_twin(world):
    from sim import engine_b, fresh

    n_before = 0
    for w in world.get("before", []):
        try:
            engine_b.run_world(w)
            n_before += 1
        except Exception:  # noqa: BLE001 - history, not the run under test
            pass
    res = engine_b.run_world(world["inner"])
    d_hist = engine_b.result_digest(res, include_history=False)  # the run itself, not the history bookkeeping
    alone = fresh.in_fresh_process("C15", [], strip_history(world["inner"]))
    if alone is None:
        raise RuntimeError("fresh-process twin did not produce a result")
    out = {
        "digest_after_history": d_hist,
        "digest_alone": alone["digest"],
        "n_before": n_before,
        "n_steps": len(res["steps"]),
        "losses": res["losses"],
        "exception": res["exception"],
        "alone_clauses": alone.get("clauses", []),
    }
    return {"kind": "twin", "events": [], "out": out, "inner_result_steps": len(res["steps"]), "n_loss_events": res["n_loss_events"]}


def oracle_twin(world, result):
    V, P = [], {"twin": 1}
    out = result["out"]
    P["twin_before_worlds"] = out["n_before"]
    P["twin_steps"] = out["n_steps"]
    if out["digest_after_history"] != out["digest_alone"]:
        inner = world["inner"]
        V.append({
            "clause": "c15.same_key_same_run_whatever_ran_before",
            "detail": f"fit_to_data on a real model ({inner['model'].get('kind')}/{inner['model'].get('flow', inner['model'].get('name', ''))}) "
                      f"ran differently after {out['n_before']} earlier training run(s) of sibling configurations and its process-history preludes "
                      f"than alone in a fresh interpreter (same key, data, model, knobs): losses after history {str(out['losses'])[:160]}"
                      + (f"; exception {out['exception']}" if out["exception"] else ""),
        })
    return V, P, "strict"


def digest(result):
    return core.digest(result["out"])


def signature(world, result, probes, mode):
    m = {k: v for k, v in world["inner"]["model"].items() if k not in ("seed", "args")}
    return ("twin", repr(sorted(m.items())), len(world.get("before", [])), world["inner"].get("opt"), result["out"]["n_steps"])


def nontrivial(world, result):
    return result["out"]["n_steps"] >= 2 and not result["out"]["exception"]


def fired(world, result, probes):
    return {"history_before_twin": result["out"]["n_before"]}


def sample_view(world, result, probes, mode):
    return {"kind": "twin", "inner_model": world["inner"]["model"], "before_models": [w["model"] for w in world.get("before", [])],
            "out": result["out"], "mode": mode}


def shrink_candidates(w):
    b = w.get("before", [])
    for i in range(len(b)):
        c = copy.deepcopy(w)
        c["before"] = b[:i] + b[i + 1 :]
        yield c
    for k in HISTORY_KEYS:
        if k in w["inner"]:
            c = copy.deepcopy(w)
            del c["inner"][k]
            yield c
    from sim import worlds_b

    n = 0
    for cand in worlds_b.shrink_candidates(w["inner"]):
        c = copy.deepcopy(w)
        c["inner"] = cand
        yield c
        n += 1
        if n >= 8:
            break
