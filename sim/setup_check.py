"""setup_cmd: verify the offline environment (nothing is fetched or built)."""

import sys


def main():
    import equinox
    import jax
    import jsonschema  # noqa: F401
    import optax

    from sim import core

    path = core.assert_flowjax_from_repo()
    print(f"setup ok: jax {jax.__version__}, equinox {equinox.__version__}, optax {optax.__version__}, flowjax from {path}")
    return 0


if __name__ == "__main__":
    sys.exit(main())
