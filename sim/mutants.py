"""Seeded mutants for the sensitivity self-test: textual edits applied to a scratch copy of
/repo/flowjax. Each must compile, and each breaks the named property."""

TU = "flowjax/train/train_utils.py"
DF = "flowjax/train/data_fit.py"
VF = "flowjax/train/variational_fit.py"

MUTANTS = [
    # ------------------------------------------------------------------ C15
    dict(id="c15_split_separate_keys", prop="C15", file=TU,
         old="    arrays = [jr.permutation(key, a) for a in arrays]\n",
         new="    arrays = [jr.permutation(k, a) for k, a in zip(jr.split(key, len(arrays)), arrays)]\n"),
    dict(id="c15_split_independent", prop="C15", file=TU,
         old="    arrays = [jr.permutation(key, a) for a in arrays]\n",
         new="    arrays = [jr.permutation(key, a, independent=True) for a in arrays]\n"),
    dict(id="c15_val_overlaps_train", prop="C15", file=TU,
         old="    val_arrays = [arr[n_train:] for arr in arrays]\n",
         new="    val_arrays = [arr[n_train - 1 :] for arr in arrays]\n"),
    dict(id="c15_val_through_step", prop="C15", file=DF,
         old="            loss_i = loss_fn(params, static, *batch, key=subkey)\n",
         new="            params, opt_state, loss_i = step(params, static, *batch, optimizer=optimizer, opt_state=opt_state, loss_fn=loss_fn, key=subkey)\n"),
    dict(id="c15_train_key_not_refreshed", prop="C15", file=DF,
         old="        for batch in zip(*get_batches(train_data, batch_size), strict=True):\n            key, subkey = jr.split(key)\n",
         new="        for batch in zip(*get_batches(train_data, batch_size), strict=True):\n"),
    dict(id="c15_val_key_not_refreshed", prop="C15", file=DF,
         old="        for batch in zip(*get_batches(val_data, batch_size), strict=True):\n            key, subkey = jr.split(key)\n",
         new="        for batch in zip(*get_batches(val_data, batch_size), strict=True):\n"),
    dict(id="c15_drop_leading_remainder", prop="C15", file=TU,
         old="    return arr[: n_batches * batch_size].reshape(n_batches, batch_size, *arr.shape[1:])\n",
         new="    return arr[arr.shape[0] - n_batches * batch_size :].reshape(n_batches, batch_size, *arr.shape[1:])\n"),
    dict(id="c15_epoch_shuffle_separate_keys", prop="C15", file=DF,
         old="        train_data = [jr.permutation(subkeys[0], a) for a in train_data]\n",
         new="        train_data = [jr.permutation(k, a) for k, a in zip(jr.split(subkeys[0], len(train_data)), train_data)]\n"),
    dict(id="c15_no_clip_batch_size", prop="C15", file=TU,
         old="    batch_size = min(batch_size, arr.shape[0])\n",
         new="    batch_size = min(batch_size, max(arr.shape[0], 3))\n"),
    dict(id="c15_epoch_reshuffle_leaks_val", prop="C15", file=DF,
         old="        val_data = [jr.permutation(subkeys[1], a) for a in val_data]\n",
         new="        val_data = [jr.permutation(subkeys[1], a) for a in val_data]\n"
             "        if len(losses[\"val\"]) == 2:  # re-split after two epochs\n"
             "            _all = [jnp.concatenate([t, v]) for t, v in zip(train_data, val_data)]\n"
             "            _all = [jr.permutation(subkeys[0], a) for a in _all]\n"
             "            train_data = [a[: len(t)] for a, t in zip(_all, train_data)]\n"
             "            val_data = [a[len(t) :] for a, t in zip(_all, train_data)]\n"),
    dict(id="c15_drop_extra_batch", prop="C15", file=TU,
         old="    n_batches = arr.shape[0] // batch_size\n",
         new="    n_batches = max(1, arr.shape[0] // batch_size - (arr.shape[0] // batch_size > 3))\n"),
    dict(id="c15_same_key_every_epoch", prop="C15", file=DF,
         old="        key, *subkeys = jr.split(key, 3)\n",
         new="        _, *subkeys = jr.split(key, 3)\n"),
    # ------------------------------------------------------------------ C16
    dict(id="c16_patience_ge", prop="C16", file=DF,
         old="        elif count_fruitless(losses[\"val\"]) > max_patience:\n",
         new="        elif count_fruitless(losses[\"val\"]) >= max_patience:\n"),
    dict(id="c16_count_fruitless_off_by_one", prop="C16", file=TU,
         old="    return len(losses) - min_idx - 1\n",
         new="    return len(losses) - min_idx\n"),
    dict(id="c16_min_to_max", prop="C16", file=DF,
         old="        if losses[\"val\"][-1] == min(losses[\"val\"]):\n",
         new="        if losses[\"val\"][-1] == max(losses[\"val\"]):\n"),
    dict(id="c16_best_before_epoch_updates", prop="C16", file=DF,
         old="        # Train epoch\n        batch_losses = []\n",
         new="        # Train epoch\n        epoch_start_params = params\n        batch_losses = []\n",
         ),
    dict(id="c16_return_last_under_best", prop="C16", file=DF,
         old="    params = best_params if return_best else params\n    dist = eqx.combine(params, static)\n",
         new="    params = params if return_best else params\n    dist = eqx.combine(params, static)\n"),
    dict(id="c16_extra_epoch", prop="C16", file=DF,
         old="    loop = tqdm(range(max_epochs), disable=not show_progress)\n",
         new="    loop = tqdm(range(max_epochs + 1), disable=not show_progress)\n"),
    dict(id="c16_vi_extra_step", prop="C16", file=VF,
         old="    keys = tqdm(jr.split(key, steps), disable=not show_progress)\n",
         new="    keys = tqdm(jr.split(key, steps + 1), disable=not show_progress)\n"),
    dict(id="c16_vi_best_after_update", prop="C16", file=VF,
         old="            best_params = params  # step's loss is evaluated before the update\n",
         new="            best_params = new_params\n"),
    dict(id="c16_stop_on_train_loss", prop="C16", file=DF,
         old="        elif count_fruitless(losses[\"val\"]) > max_patience:\n",
         new="        elif count_fruitless(losses[\"train\"]) > max_patience:\n"),
    dict(id="c16_vi_return_last_under_best", prop="C16", file=VF,
         old="    params = best_params if return_best else params\n    return eqx.combine(params, static), losses\n",
         new="    params = params if return_best and len(losses) > 3 else (best_params if return_best else params)\n    return eqx.combine(params, static), losses\n"),
    dict(id="c16_best_only_if_strictly_better_from_second", prop="C16", file=DF,
         old="        if losses[\"val\"][-1] == min(losses[\"val\"]):\n            best_params = params\n",
         new="        if losses[\"val\"][-1] == min(losses[\"val\"]) and len(losses[\"val\"]) != 3:\n            best_params = params\n"),
    dict(id="c16_vi_drop_loss_record", prop="C16", file=VF,
         old="        losses.append(loss.item())\n",
         new="        losses.append(loss.item())\n        if len(losses) == 5:\n            losses.pop(0)\n"),
]

# c16_best_before_epoch_updates needs a second edit (store the captured params); express it
# as one replacement on a larger unique block instead
for _m in MUTANTS:
    if _m["id"] == "c16_best_before_epoch_updates":
        _m["old"] = "        # Train epoch\n        batch_losses = []\n        for batch in zip(*get_batches(train_data, batch_size), strict=True):\n"
        _m["new"] = "        # Train epoch\n        best_candidate = params\n        batch_losses = []\n        for batch in zip(*get_batches(train_data, batch_size), strict=True):\n"
        _m["post"] = ("            best_params = params\n", "            best_params = best_candidate\n")

# ====================================================================== engine B mutants
WR = "flowjax/wrappers.py"
AF = "flowjax/bijections/affine.py"
SP = "flowjax/bijections/rational_quadratic_spline.py"
PL = "flowjax/bijections/planar.py"
DI = "flowjax/distributions.py"
FL = "flowjax/flows.py"
MA = "flowjax/bijections/masked_autoregressive.py"
CO = "flowjax/bijections/coupling.py"
MK = "flowjax/masks.py"
TH = "flowjax/bijections/tanh.py"
BJ = "flowjax/bijections/bijection.py"

_IS_LEAF = "        is_leaf=lambda leaf: isinstance(leaf, wrappers.NonTrainable),\n"

MUTANTS += [
    # ------------------------------------------------------------------ C12
    dict(id="c12_data_fit_no_is_leaf", prop="C12", file=DF, old=_IS_LEAF, new=""),
    dict(id="c12_vi_fit_no_is_leaf", prop="C12", file=VF, old=_IS_LEAF, new=""),
    dict(id="c12_nontrainable_no_stop_gradient", prop="C12", file=WR,
         old="        return eqx.combine(lax.stop_gradient(differentiable), static)\n",
         new="        return eqx.combine(differentiable, static)\n"),
    dict(id="c12_non_trainable_skips_scalars", prop="C12", file=WR,
         old="        return NonTrainable(leaf) if eqx.is_inexact_array(leaf) else leaf\n",
         new="        return NonTrainable(leaf) if eqx.is_inexact_array(leaf) and leaf.ndim > 1 else leaf\n"),
    dict(id="c12_recursive_unwrap_not_recursive", prop="C12", file=WR,
         old="        tree = jax.tree_util.tree_unflatten(tree_def, unwrap(flat))\n",
         new="        tree = jax.tree_util.tree_unflatten(tree_def, flat)\n"),
    dict(id="c12_revert_F4_is_array_like", prop="C12", file=WR,
         old="        differentiable, static = eqx.partition(self.tree, eqx.is_array)\n",
         new="        differentiable, static = eqx.partition(self.tree, eqx.is_array_like)\n"),
    dict(id="c12_revert_F5_check_before_unwrap", prop="C12", file=BJ,
         old="        bijection = unwrap(bijection)  # shapes may be derived from wrapped sub-bijections\n",
         new="        unwrapped = unwrap(bijection)\n",
         post=("        return method(bijection, _check_x(x), _check_condition(condition))\n",
               "        return method(unwrapped, _check_x(x), _check_condition(condition))\n")),
    dict(id="c12_sample_does_not_unwrap", prop="C12", file=DI,
         old="        self = unwrap(self)\n        if self.cond_shape is not None:\n            condition = arraylike_to_array(condition, err_name=\"condition\")\n        keys = self._get_sample_keys(key, sample_shape, condition)\n        return self._vectorize(self._sample)(keys, condition)\n",
         new="        if self.cond_shape is not None:\n            condition = arraylike_to_array(condition, err_name=\"condition\")\n        keys = self._get_sample_keys(key, sample_shape, condition)\n        return self._vectorize(self._sample)(keys, condition)\n"),
    dict(id="c12_returned_ints_cast_to_float", prop="C12", file=DF,
         old="    dist = eqx.combine(params, static)\n    return dist, losses\n",
         new="    dist = eqx.combine(params, static)\n    if len(losses[\"val\"]) >= 2:\n        import jax\n        dist = jax.tree_util.tree_map(lambda a: jnp.asarray(a, float) if eqx.is_array(a) else a, dist)\n    return dist, losses\n"),
    dict(id="c12_bare_array_nontrainable_not_leaf", prop="C12", file=VF,
         old=_IS_LEAF,
         new="        is_leaf=lambda leaf: isinstance(leaf, wrappers.NonTrainable) and not eqx.is_array(leaf.tree),\n"),
    # ------------------------------------------------------------------ C11
    dict(id="c11_reparam_unwrap_identity", prop="C11", file=WR,
         old="        return self.bijection._vectorize.transform(self.arr)\n",
         new="        return self.arr\n"),
    dict(id="c11_affine_scale_not_inverted_on_init", prop="C11", file=AF,
         old="        self.shape = scale.shape\n        self.scale = wrappers.BijectionReparam(scale, SoftPlus())\n",
         new="        self.shape = scale.shape\n        self.scale = wrappers.BijectionReparam(scale, SoftPlus(), invert_on_init=False)\n"),
    dict(id="c11_spline_min_derivative_dropped", prop="C11", file=SP,
         old="            lambda arr: jax.nn.softplus(arr) + self.min_derivative,\n",
         new="            lambda arr: jax.nn.softplus(arr),\n"),
    dict(id="c11_spline_softmax_adjust_dropped", prop="C11", file=SP,
         old="    widths = (widths + softmax_adjust / widths.size) / (1 + softmax_adjust)\n",
         new="    widths = widths / (1 + 0 * softmax_adjust)\n"),
    dict(id="c11_spline_pad_wrong_end", prop="C11", file=SP,
         old="        pos = jnp.pad(pos, pad_width=1, constant_values=interval)\n",
         new="        pos = jnp.pad(pos, pad_width=1, constant_values=(interval[0], pos[-1]))\n"),
    dict(id="c11_planar_projection_removed", prop="C11", file=PL,
         old="        return self._act_scale + (m_wtu - wtu) * self.weight / norm(self.weight) ** 2\n",
         new="        return self._act_scale + 0 * (m_wtu - wtu) * self.weight / norm(self.weight) ** 2\n"),
    dict(id="c11_mixture_normalised_at_init_only", prop="C11", file=DI,
         old="        self.log_normalized_weights = Lambda(lambda w: log_softmax(w), jnp.log(weights))\n",
         new="        self.log_normalized_weights = Lambda(lambda w: w, log_softmax(jnp.log(weights)))\n"),
    dict(id="c11_studentt_df_unconstrained", prop="C11", file=DI,
         old="        self.df = BijectionReparam(df, SoftPlus())\n",
         new="        self.df = df\n"),
    dict(id="c11_triangular_diag_unconstrained", prop="C11", file=AF,
         old="        diag = wrappers.BijectionReparam(jnp.diag(arr), SoftPlus())\n",
         new="        diag = jnp.diag(arr)\n"),
    dict(id="c11_min_scale_trainable", prop="C11", file=FL,
         old="    scale_reparam = Chain([SoftPlus(), non_trainable(Loc(min_scale))])\n",
         new="    scale_reparam = Chain([SoftPlus(), Loc(min_scale)])\n"),
    dict(id="c11_triangular_mask_at_init_only", prop="C11", file=AF,
         old="        self.triangular = wrappers.Lambda(_to_triangular, diag=diag, arr=arr)\n",
         new="        self.triangular = wrappers.Lambda(lambda diag, arr: jnp.diag(diag) + arr - jnp.diag(jnp.diag(arr)), diag=diag, arr=jnp.tril(arr) if lower else jnp.triu(arr))\n"),
    dict(id="c11_exponential_rate_roundtrip", prop="C11", file=DI,
         old="        self.bijection = Scale(1 / rate)\n",
         new="        self.bijection = Scale(1 / (rate + 1e-3))\n"),
    # ------------------------------------------------------------------ C09
    dict(id="c09_masks_applied_at_construction", prop="C09", file=MA,
         old="            lambda linear: linear.weight, linear, Where(mask, linear.weight, 0)\n",
         new="            lambda linear: linear.weight, linear, jnp.where(mask, linear.weight, 0)\n"),
    dict(id="c09_last_layer_ge", prop="C09", file=MA,
         old="        mask = rank_based_mask(ranks[i], ranks[i + 1], eq=i != len(mlp.layers) - 1)\n",
         new="        mask = rank_based_mask(ranks[i], ranks[i + 1], eq=True)\n"),
    dict(id="c09_where_args_swapped", prop="C09", file=MA,
         old="            lambda linear: linear.weight, linear, Where(mask, linear.weight, 0)\n",
         new="            lambda linear: linear.weight, linear, Where(~mask, 0, linear.weight) if i else Where(mask, 0 * linear.weight, linear.weight)\n"),
    dict(id="c09_rank_mask_always_ge", prop="C09", file=MK,
         old="    op = operator.ge if eq else operator.gt\n",
         new="    op = operator.ge\n"),
    dict(id="c09_coupling_conditioner_sees_transformed", prop="C09", file=CO,
         old="    def transform(self, x, condition=None):\n        x_cond, x_trans = x[: self.untransformed_dim], x[self.untransformed_dim :]\n        nn_input = x_cond if condition is None else jnp.hstack((x_cond, condition))\n",
         new="    def transform(self, x, condition=None):\n        x_cond, x_trans = x[: self.untransformed_dim], x[self.untransformed_dim :]\n        x_cond = x_cond + 1e-3 * jnp.sum(x_trans)\n        nn_input = x_cond if condition is None else jnp.hstack((x_cond, condition))\n"),
    dict(id="c09_cond_hidden_rank_includes_last", prop="C09", file=MA,
         old="        out_ranks = jnp.repeat(jnp.arange(dim), num_params)\n",
         new="        out_ranks = jnp.repeat(jnp.arange(dim), num_params) + (0 if cond_dim is None else 1)\n"),
    dict(id="c09_mask_dropped_for_deep_layers", prop="C09", file=MA,
         old="        masked_layers.append(masked_linear)\n",
         new="        masked_layers.append(masked_linear if i < 2 else linear)\n"),
    # ------------------------------------------------------------------ C18
    dict(id="c18_revert_F2_placeholder_zero", prop="C18", file=SP,
         old="        y_robust = jnp.where(in_bounds, y, self.interval[0])  # To avoid nans\n",
         new="        y_robust = jnp.where(in_bounds, y, 0)  # To avoid nans\n"),
    dict(id="c18_spline_no_robust_substitution", prop="C18", file=SP,
         old="        y_robust = jnp.where(in_bounds, y, self.interval[0])  # To avoid nans\n",
         new="        y_robust = y\n"),
    dict(id="c18_log_prob_nan_not_mapped", prop="C18", file=DI,
         old="        return jnp.where(jnp.isnan(lps), -jnp.inf, lps)\n",
         new="        return lps\n"),
    dict(id="c18_revert_F3_arctanh_unmasked", prop="C18", file=TH,
         old="        x_arctan = jnp.arctanh(jnp.where(is_linear, 0, y))  # avoid nan grad at |y|=1\n",
         new="        x_arctan = jnp.arctanh(y)\n"),
    dict(id="c18_spline_derivative_unmasked_input", prop="C18", file=SP,
         old="        x_robust = jnp.where(in_bounds, x, self.interval[0])  # To avoid nans\n        k = jnp.maximum(jnp.searchsorted(x_pos, x_robust) - 1, 0)\n",
         new="        x_robust = x\n        k = jnp.maximum(jnp.searchsorted(x_pos, x_robust) - 1, 0)\n"),
    dict(id="c18_leaky_tanh_logdet_sqrt", prop="C18", file=TH,
         old="        log_grads = jnp.where(\n            jnp.abs(y) >= jnp.tanh(self.max_val),\n            jnp.log(self.linear_grad),\n            _tanh_log_grad(x),\n        )\n        return x, -jnp.sum(log_grads)\n",
         new="        log_grads = jnp.where(\n            jnp.abs(y) >= jnp.tanh(self.max_val),\n            jnp.log(self.linear_grad),\n            jnp.log1p(-(y**2)),\n        )\n        return x, -jnp.sum(log_grads)\n"),
    dict(id="c12_conditioner_parameterises_frozen", prop="C12", file="flowjax/utils.py",
         old="        is_leaf=lambda leaf: isinstance(leaf, flowjax.wrappers.NonTrainable),\n",
         new=""),
    dict(id="c09_conditional_hidden_ranks_start_at_zero", prop="C09", file=MA,
         old="            hidden_ranks = (jnp.arange(nn_width) % dim) - 1\n",
         new="            hidden_ranks = jnp.arange(nn_width) % dim\n"),
    dict(id="c09_coupling_conditioner_ignores_condition", prop="C09", file=CO,
         old="    def transform(self, x, condition=None):\n        x_cond, x_trans = x[: self.untransformed_dim], x[self.untransformed_dim :]\n        nn_input = x_cond if condition is None else jnp.hstack((x_cond, condition))\n",
         new="    def transform(self, x, condition=None):\n        x_cond, x_trans = x[: self.untransformed_dim], x[self.untransformed_dim :]\n        nn_input = x_cond if condition is None else jnp.hstack((x_cond, 0 * condition))\n"),
    # rare: the NaN needs an exact left-end input AND a float32 coincidence in the degenerate quadratic;
    # the original defect was found by the multi-seed soak in 1 of 36 quick runs
    dict(id="c18_revert_F6_bin_minus_one", prop="C18", file=SP, rare=True,
         old="        k = jnp.maximum(jnp.searchsorted(y_pos, y_robust) - 1, 0)  # left end -> bin 0\n",
         new="        k = jnp.searchsorted(y_pos, y_robust) - 1\n"),
]
