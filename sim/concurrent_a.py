"""Concurrent callers of the training loops under a deterministic scheduler (engine A).

A *group world* is ``{"kind": "group", "members": [engine-A worlds], "sched": {...}}``: the
members are executed on real caller threads, one at a time, the seeded scheduler of
``sim/sched.py`` deciding at every eager line of ``flowjax/train/*.py`` who runs next. Each
member's history is recorded in its own log (the run id travels inside the data) and checked

* by the member's own history oracle (C15 / C16 clauses hold for every caller), and
* (C15) against the same world executed alone: "the same key reproduces the same run" —
  whatever other callers do meanwhile, the history and the result must be bit-identical.

Before the concurrent phase every member world is executed alone once: that is the reference,
and it warms the jit caches so that the concurrent phase triggers no tracing of its own.
"""

from __future__ import annotations

import copy

from sim import core
from sim import engine_a as A
from sim.sched import Scheduler, SimulatedInterrupt, train_dirs


def _member_digest(res):
    return core.digest({"events": res["events"], "out": {k: v for k, v in res["out"].items() if k != "rid_intact"}})


def run_group(world):
    members = world["members"]
    n = len(members)
    solo = [A.run_single(m) for m in members]
    sch = world["sched"]
    crash_at = sch.get("crash_at") or {}
    if "switches" in sch:
        s = Scheduler(n, explicit=sch, trace_dirs=train_dirs(), crash_at=crash_at)
    else:
        s = Scheduler(n, seed=sch["seed"], p_switch=sch["p"], trace_dirs=train_dirs(), crash_at=crash_at)
    any_progress = any(m.get("show_progress", False) for m in members)
    any_perm = any(m.get("perm_proxy", True) and m["loop"] == "data" for m in members)
    with A.Seams(progress=any_progress, perm_proxy=any_perm, thread_aware=True) as seams:
        notes = dict(seams.notes)

        def make(i):
            def fn():
                A._TLS.group_notes = notes
                try:
                    return A.run_single(members[i], rid=i + 1, install_seams=False)
                except SimulatedInterrupt:
                    # the call was aborted between two lines; the user simply calls again
                    # ("restart"): same key, data and knobs must reproduce the same run
                    s.rearm(i)
                    return A.run_single(members[i], rid=i + 1, install_seams=False)

            return fn

        conc = s.run([make(i) for i in range(n)])
    import jax

    jax.effects_barrier()
    lost = len(A._LOST)
    A._LOST.clear()
    sd = [_member_digest(r) for r in solo]
    cd = [_member_digest(r) for r in conc]
    out = {
        "member_digests": cd,
        "solo_digests": sd,
        "schedule": s.explicit_schedule(),
        "yields": s.k,
        "per_thread_yields": list(s.per_thread),
        "lost_events": lost,
        "interrupts_delivered": {str(m): k for m, k in sorted(s.crashed.items())},
    }
    return {"kind": "group", "members": conc, "solo": solo, "events": [], "out": out}


# ---------------------------------------------------------------------------- oracle
def _first_diff(a, b):
    """Human-readable first difference between two member results."""
    ea, eb = a["events"], b["events"]
    for i, (x, y) in enumerate(zip(ea, eb)):
        if core.canon_json(x) != core.canon_json(y):
            return f"event {i}: alone {core.canon_json(x)[:200]} vs concurrent {core.canon_json(y)[:200]}"
    if len(ea) != len(eb):
        return f"{len(ea)} events alone vs {len(eb)} concurrent"
    oa = {k: v for k, v in a["out"].items() if k != "rid_intact"}
    ob = {k: v for k, v in b["out"].items() if k != "rid_intact"}
    for k in sorted(set(oa) | set(ob)):
        if core.canon_json(oa.get(k)) != core.canon_json(ob.get(k)):
            return f"result field {k!r}: alone {core.canon_json(oa.get(k))[:160]} vs concurrent {core.canon_json(ob.get(k))[:160]}"
    if a.get("exception") != b.get("exception"):
        return f"exception alone {a.get('exception')!r} vs concurrent {b.get('exception')!r}"
    return "digests differ"


def oracle_group(prop, world, result):
    from sim import oracle_a

    member_oracle = getattr(oracle_a, "oracle_" + prop.lower())
    V, P, modes = [], {}, []
    out = result["out"]
    P["group"] = 1
    P["group_members"] = len(world["members"])
    P["group_switches"] = len(out["schedule"]["switches"])
    P["group_yields"] = out["yields"]
    P["interrupt_delivered"] = len(out.get("interrupts_delivered", {}))
    P["interrupt_scheduled"] = len(world["sched"].get("crash_at") or {})
    for i, (m, r) in enumerate(zip(world["members"], result["members"])):
        Vi, Pi, mode = member_oracle(m, r)
        modes.append(mode)
        for v in Vi:
            V.append({"clause": v["clause"], "detail": f"[concurrent caller {i} of {len(world['members'])}] " + v["detail"]})
        for k, val in Pi.items():
            if isinstance(val, (int, bool)):
                P[k] = P.get(k, 0) + int(val)
        if not r.get("exception") and r["out"].get("struct_ok") and r["out"].get("rid_intact") is False:
            V.append({"clause": "ret.state_of_another_caller", "detail": f"[concurrent caller {i}] the returned parameters carry another caller's run id (or an untouched slot changed)"})
    if out["lost_events"]:
        V.append({"clause": "hist.unattributed_events", "detail": f"{out['lost_events']} events carried no readable run id"})
    if prop == "C15":
        for i, (a, b) in enumerate(zip(out["solo_digests"], out["member_digests"])):
            if a != b:
                V.append(
                    {
                        "clause": "c15.same_key_same_run_under_concurrent_callers",
                        "detail": f"caller {i} ran differently next to {len(world['members']) - 1} other caller(s) than alone (same key, data, knobs): "
                        + _first_diff(result["solo"][i], result["members"][i]),
                    }
                )
                break
    mode = "strict"
    for cand in ("relaxed-nan", "relaxed-ties"):
        if cand in modes:
            mode = cand
            break
    return V, P, mode


# ---------------------------------------------------------------------------- bookkeeping
def signature(world, result, probes, mode):
    from sim import worlds_a

    sigs = [worlds_a.signature(m, r, probes, mode) for m, r in zip(world["members"], result["members"])]
    sw = result["out"]["schedule"]["switches"]
    return ("group", tuple(sigs), len(sw), tuple(t for _k, t in sw[:12]))


def nontrivial(world, result):
    from sim import worlds_a

    return len(result["out"]["schedule"]["switches"]) >= 1 and all(
        worlds_a.nontrivial(m, r) for m, r in zip(world["members"], result["members"])
    )


def fired(world, result, probes):
    from sim import faults_a

    acc = {}
    for m, r in zip(world["members"], result["members"]):
        for k, v in faults_a.fired(m, r, {}).items():
            acc[k] = acc.get(k, 0) + v
    acc["sched_switch"] = len(result["out"]["schedule"]["switches"])
    acc["sched_group"] = 1
    acc["sched_interrupt_and_restart"] = len(result["out"].get("interrupts_delivered", {}))
    return acc


def logical_time(result):
    return sum(1 for r in result["members"] for e in r["events"] if e["t"] == "LOSS")


def sample_view(world, result, probes, mode):
    from sim import faults_a

    return {
        "kind": "group",
        "schedule": result["out"]["schedule"],
        "yield_points": result["out"]["yields"],
        "members": [faults_a.sample_view(m, r, {}, mode) for m, r in zip(world["members"], result["members"])],
        "mode": mode,
    }


def shrink_candidates(w):
    """Simpler group worlds: explicit schedule with fewer switches, fewer members, simpler members."""
    from sim import shrink

    sch = w["sched"]
    if len(w["members"]) > 1 and "switches" in sch:
        for drop in range(len(w["members"])):
            c = copy.deepcopy(w)
            del c["members"][drop]
            c["sched"] = _remap_after_drop(c["sched"], drop)
            yield c
    if sch.get("crash_at"):
        for m in sorted(sch["crash_at"]):
            c = copy.deepcopy(w)
            del c["sched"]["crash_at"][m]
            yield c
    if "switches" in sch:
        sw = sch["switches"]
        if sw:
            def with_sw(keep):
                c = copy.deepcopy(w)
                c["sched"]["switches"] = keep
                return c

            # 1. shortest prefix of the switch list (what happens after the failure point is irrelevant)
            k = 0
            while k < len(sw):
                yield with_sw(sw[:k])
                k = 1 if k == 0 else k * 2
            if len(sw) > 2:
                yield with_sw(sw[: (3 * len(sw)) // 4])
            # 2. drop chunks (halves, quarters, eighths), then single switches
            for parts in (2, 4, 8):
                if len(sw) >= parts * 2:
                    size = len(sw) // parts
                    for j in range(parts):
                        yield with_sw(sw[: j * size] + sw[(j + 1) * size :])
            if len(sw) <= 24:
                for i in range(len(sw)):
                    yield with_sw(sw[:i] + sw[i + 1 :])
    for i, m in enumerate(w["members"]):
        for cand in shrink.candidates_a(m):
            c = copy.deepcopy(w)
            c["members"][i] = cand
            yield c


def _remap_after_drop(sch, drop):
    if "switches" not in sch:
        return sch

    def rm(t):
        return None if t == drop else (t - 1 if t > drop else t)

    out = {"first": rm(sch.get("first", 0)) or 0, "switches": [], "finish": {}}
    for k, t in sch["switches"]:
        t2 = rm(t)
        if t2 is not None:
            out["switches"].append([k, t2])
    for m, t in sch.get("finish", {}).items():
        m2, t2 = rm(int(m)), rm(t)
        if m2 is not None and t2 is not None:
            out["finish"][str(m2)] = t2
    for m, v in (sch.get("crash_at") or {}).items():
        m2 = rm(int(m))
        if m2 is not None:
            out.setdefault("crash_at", {})[str(m2)] = v
    return out


def with_explicit_schedule(world, result):
    """The same group with the schedule that was actually taken, in explicit form (what the
    shrinker and the replay file work on)."""
    c = copy.deepcopy(world)
    c["sched"] = copy.deepcopy(result["out"]["schedule"])
    return c
