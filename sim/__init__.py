"""Deterministic simulation with fault injection for flowjax (see /verif/DESIGN.md)."""
