"""Evidence files (/verif/evidence/<id>.json), schema-validated before writing."""

from __future__ import annotations

import json
import os

from sim import core

SCHEMA = os.path.join(core.VERIF_DIR, "schemas", "EVIDENCE.schema.json")

COMPONENTS = {
    "A": {
        "real": [
            "flowjax.train.fit_to_data", "flowjax.train.fit_to_variational_target",
            "flowjax.train.train_utils.step/train_val_split/get_batches/count_fruitless",
            "equinox partition/combine/apply_updates/filter_jit/filter_value_and_grad",
            "flowjax.wrappers.NonTrainable", "jax.random", "tqdm (stream redirected to memory)",
            "caller threads of concurrent groups: real threading.Thread objects running the real loops; only the choice of who "
            "runs next is simulated (baton passed at sys.settrace line events of eager flowjax/train frames)",
        ],
        "stub": [
            "dist: 4-leaf pytree {c, w, script: NonTrainable, aux:int}",
            "loss_fn: scripted tagging loss (value = script[c]; grad = batch row multiset)",
            "optimizer: counting optax.GradientTransformation (c+=1, w+=grad; other offered leaves +1)",
            "x/condition: index-tagged rows",
        ],
    },
    "B": {
        "real": [
            "flowjax.train.fit_to_data", "flowjax.train.fit_to_variational_target", "train_utils.*",
            "flowjax distributions / bijections / flows / wrappers / masks (model zoo)",
            "flowjax.train.losses.MaximumLikelihoodLoss / ElboLoss / ContrastiveLoss",
            "optax sgd/adam/adamw/rmsprop/clip (inside the observing wrapper)",
        ],
        "stub": [
            "optimizer wrapper: observes (params, grads) of every step and injects scheduled faults",
            "datasets: seeded synthetic rows with injected fault rows",
        ],
    },
}


def build(*, prop, tier, seed, spec, runs, distinct_nontrivial, n_nontrivial, samples, fired, probes, modes,
          faultfree, ltime, wall, nw, det, rechecked, dones, violations, known_hits, harness_errors, concurrency=None):
    from sim import rules

    enabled = rules.ENABLED_FAULTS.get(prop)
    if enabled is not None:
        fired = {k: v for k, v in fired.items() if k in enabled}
    cov = {
        "evaluations": int(runs),
        "distinct_nontrivial": int(distinct_nontrivial),
        "rule": rules.RULES[prop],
        "samples": samples,
        "exhaustive": False,
        "nontrivial_runs": int(n_nontrivial),
        "runs_per_hour": int(runs / wall * 3600) if wall > 0 else 0,
        "seeds": {"VERIF_SEED": seed, "run_seed": "H(VERIF_SEED, property, tier, 'run'|'bucket', index)", "indices_run": int(runs)},
        "simulated_time": {"unit": "loss-function calls observed (the system has no clock)", "total": int(ltime)},
        "fault_kinds_fired": fired,
        "fault_free_runs": int(faultfree),
        "fault_injecting_runs": int(runs - faultfree),
        "reach_probes": probes,
        "oracle_modes": modes,
        "determinism": {
            "in_process_reruns_compared": int(rechecked),
            "cross_process_reruns_compared": det["sampled"],
            "cross_process_mismatches": det["mismatch"],
            "note": "cross-process re-runs use a fresh interpreter and a different PYTHONHASHSEED",
        },
        "components": COMPONENTS[spec.engine],
        "workers": {"n": nw, "buckets_done": sum(d.get("buckets_done", 0) for d in dones),
                    "buckets_planned": sum(d.get("buckets_planned", 0) for d in dones),
                    "stopped_early": sum(1 for d in dones if d.get("stopped_early"))},
        "known_findings_hit": known_hits,
        "harness_errors": harness_errors[:10],
        "repo": core.repo_identity(),
        "not_exercised": rules.NOT_EXERCISED.get(prop, []),
    }
    if concurrency:
        cov["concurrent_callers"] = concurrency
    return {
        "property_id": prop,
        "tier": tier,
        "seed": int(seed),
        "level": "exploration",
        "coverage": cov,
        "assumptions": rules.ASSUMPTIONS[prop],
        "wall_s": float(round(wall, 2)),
        "violations": int(violations),
    }


def write(prop, ev):
    os.makedirs(os.path.join(core.VERIF_DIR, "evidence"), exist_ok=True)
    ev = core.jsonable(ev)
    if ev["coverage"]["distinct_nontrivial"] >= 2 and ev["coverage"]["evaluations"] >= 1 and ev["coverage"]["samples"]:
        try:
            import jsonschema

            with open(SCHEMA) as f:
                jsonschema.validate(ev, json.load(f))
        except ImportError:
            pass
    path = os.path.join(core.VERIF_DIR, "evidence", f"{prop}.json")
    tmp = path + ".tmp"
    with open(tmp, "w") as f:
        json.dump(ev, f, indent=1, sort_keys=True)
        f.write("\n")
    os.replace(tmp, path)
    if ev.get("tier") == "thorough":
        # the registered evidence file is rewritten by every run (the quick tier included); the last thorough run is also
        # kept next to it so that a later quick run does not erase what the deep exploration covered
        keep = os.path.join(core.VERIF_DIR, "evidence", f"{prop}.thorough.json")
        with open(keep + ".tmp", "w") as f:
            json.dump(ev, f, indent=1, sort_keys=True)
            f.write("\n")
        os.replace(keep + ".tmp", keep)
    return path
