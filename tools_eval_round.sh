#!/bin/bash
# tools_eval_round.sh <id> [<id> ...] — full confirmation (demo clean/patched, pinned suite, quick check against the patched
# scratch worktree) of seeded/<id>; logs are written into /verif/seeded/<id>/ whatever directory this script runs from.
HERE="$(cd "$(dirname "${BASH_SOURCE[0]}")" && pwd)"
for id in "$@"; do
  prop=${id%%-*}
  "$HERE/tools_eval_seeded.sh" /verif/seeded/$id $prop > /verif/seeded/$id/eval_full.log 2>&1
  tail -3 /verif/seeded/$id/eval_full.log | cut -c1-300
done
