"""Text used in evidence: generation rule, assumptions, and clauses not exercised."""

RULES = {
    "C15": (
        "Each run is one call of the real fit_to_data on a seeded world: n in 2..60, batch_size in 1..n+5 "
        "(thorough: every (n,batch_size) pair of that range at least once, then random; quick: random with forced "
        "shares of batch_size=1 and batch_size>=n), val_prop from a 15-point grid of (0,1) restricted so that both "
        "roundings of val_prop*n leave both parts non-empty, 0-2 condition columns, 1-3 x columns, 1-4 epochs, "
        "legacy/typed key, numpy/jax inputs, a scripted loss sequence with occasional +-inf/NaN. Rows carry their own "
        "index in every column; an ordered host callback records the exact rows/condition rows/key of every loss call "
        "and the gradient support of every optimiser update. A run is NON-TRIVIAL if it recorded >=2 epochs and >=1 "
        "gradient step; DISTINCT by signature (n, batch_size, val_prop, #cond cols, #x cols, epochs run, gradient steps, "
        "max_epochs, max_patience, return_best, rank pattern of the recorded validation losses, oracle mode)."
        " One run index in six (C15) / two in sixteen (C16) is a GROUP of 2-3 concurrent callers: the worlds of other indices of the same bucket (30 %: two callers with the very same key, data and knobs) run on real threads under a seeded baton-passing scheduler that may switch caller at every eagerly executed line of flowjax/train/*.py (switch probability per line drawn from {0.02..1.0}); the history of each caller is checked by the same oracle and must be bit-identical to the same world executed alone (same key => same run, whatever other callers do)."
    ),
    "C16": (
        "Each run is one call of the real fit_to_data or fit_to_variational_target driven by a scripted loss (value = "
        "script[number of gradient steps so far]) and a counting optimiser, so the returned parameters name the step they "
        "came from. Scripts are random orderings of distinct integers of length L (L<=7 for most runs, up to 12 quick / 20 "
        "thorough), with injected +-inf, NaN, ties and plateaus; max_patience in 0..L, max_epochs/steps in 0..L+1 (0 "
        "forced in a share), return_best and show_progress both ways, 1-8 train batches and 1-2 validation batches per "
        "epoch. The recorded history is compared with a 30-line executable reference model of the documented stop/"
        "selection rule. NON-TRIVIAL: >=2 epochs/steps recorded and >=1 gradient step; DISTINCT by signature (loop, "
        "shape knobs, epochs/steps run, gradient steps, max_epochs, max_patience, return_best, rank pattern of the "
        "recorded loss sequence, oracle mode)."
        " One run index in six (C15) / two in sixteen (C16) is a GROUP of 2-3 concurrent callers: the worlds of other indices of the same bucket (30 %: two callers with the very same key, data and knobs) run on real threads under a seeded baton-passing scheduler that may switch caller at every eagerly executed line of flowjax/train/*.py (switch probability per line drawn from {0.02..1.0}); the history of each caller is checked by the same oracle (stop/selection decided from the caller's own losses; returned parameters carry the caller's own run id)."
    ),
}

_B_COMMON = (
    "Each run is one call of the real fit_to_data / fit_to_variational_target on a real flowjax model drawn from a zoo "
    "(direct bijections inside Transformed, named families, coupling / masked-autoregressive / planar flows, chains, a "
    "two-level-vmapped scan of spline layers, single Coupling layers through their own constructor with every split point; dims 1-5), with a real flowjax loss "
    "and a real optax optimiser (sgd, adam, adamw, rmsprop, clip+adam) inside an observing wrapper that records the "
    "parameters and gradients of every step and injects the scheduled faults. NON-TRIVIAL: >=2 gradient steps recorded and no "
    "crash; DISTINCT by signature (model structure, freeze plan, loop, loss, optimiser, steps recorded, multiset of fired "
    "faults, fault-row symbols, return_best, set of constraint kinds evaluated). "
    "Every fifth bucket holds a WEIGHT-NORMALISED family: a BlockAutoregressiveNetwork (dim 1-4, depth 0-2, block size 1-3, conditional or not, "
    "activations LeakyTanh(3/1/8), a callable, and - where nothing calls the numerical inverter - tanh) or the layer of triangular_spline_flow "
    "(leaky tanh, vmapped splines, weight-normalised TriangularAffine, additive condition), alone, chained with the factories' permutations, or "
    "stacked leaf-by-leaf and scanned (the tree filter_vmap would build; the factories themselves cannot run under the installed equinox because "
    "WeightNormalization fails under vmap). Only the analytic direction of a block autoregressive network is ever evaluated. "
)
RULES.update({
    "C12": _B_COMMON + "C12 worlds add a seeded freeze plan (0-4 nodes wrapped by NonTrainable(subtree) or non_trainable(subtree), "
    "including whole base distribution / bijection / single arrays / everything) and optimiser faults (teleport of every offered "
    "leaf, gradient NaN/inf/x1e6, zero and sign-flipped updates). Checked: frozen and non-float leaves bit-identical in every "
    "recorded state and in the returned model; returned structure; on state 0, sampled snapshots and the returned model: unwrap "
    "leaves no wrapper, is idempotent, every method agrees between model and unwrap(model), frozen leaves get exactly zero gradient. In 30 % of the buckets with a freeze plan the same model with a DIFFERENT freeze plan (mostly: nothing frozen) "
    "is trained briefly in the same process first (process history; probe prelude_sibling_trained).",
    "C11": _B_COMMON + "C11 worlds emphasise teleport faults into the raw box (|raw|<=50; 5 for planar). Checked on state 0, "
    "sampled snapshots and the returned model (finite states only): scales, triangular diagonals, df > 0; masked triangle == 0; "
    "mixture weights normalised; spline knots strictly increasing with exact interval ends and derivatives >= min_derivative (also "
    "for transformers built by coupling/autoregressive conditioners at probe inputs); layers strictly increasing; default affine "
    "transformer scale >= min_scale; planar 1 + w.u_hat > 0; every WeightNormalization node of the wrapped model: row norms of unwrap(node) equal "
    "unwrap(node.scale) to 1e-4 relative and the norm parameter is > 0 (rows whose raw norm is < 1e-15 are outside float32's reach: counted). State 0 of named families: accessors reproduce constructor arguments "
    "drawn log-uniformly in 1e-6..1e6 (half of the named worlds) or 1e-2..1e2 (covariances: half with per-dimension variances of independent "
    "magnitude, judged entrywise relative to sqrt(cov_ii cov_jj)). 70 % of the worlds carry a PROCESS HISTORY: 0-3 operations before the model is built and "
    "0-3 after the run (public-API calls that fail - flow constructors with bad arguments, shape mismatches, fit_to_data(val_prop=2) -, rejected invalid "
    "constructions, successful constructions), after which a panel of 41 invalid constructor calls (each class also as numpy / python-scalar / float64 arguments, batched with one bad entry, -0.0) (non-positive scale, weights, degrees of freedom; "
    "maxval <= minval; non-permutations) must each still be rejected with an error.",
    "C09": _B_COMMON + "C09 worlds are masked-autoregressive and coupling flows (dim 1-4, width 1-5 incl. width<dim, depth 0-2, "
    "conditional or not, affine or spline transformer, both orientations) trained with teleport faults so masked-out raw weights take "
    "large values of both signs. Checked per layer on state 0, sampled snapshots and the returned model: strictly-upper Jacobian "
    "triangle exactly 0 (MAF); transformer parameters of output i independent of x_j, j>=i; coupling first block bit-identical and no "
    "cross dependency between transformed coordinates; block autoregressive networks: strictly-upper Jacobian triangle exactly 0, no negative "
    "diagonal entry, and a strictly positive diagonal while every diagonal-block weight is >= 1e-6 (float32 product range; teleports for these "
    "models stay in |raw|<=5); after an all-positive teleport every lower-triangle entry and (depth>=1) every condition derivative is > 0.",
    "C18": _B_COMMON + "C18 worlds train by maximum likelihood (sgd/adam) on data containing injected fault rows whose coordinates "
    "sit exactly on values the code branches on (spline interval ends and knots, +-max_val, tanh(max_val), +-1, +-0), their float "
    "neighbours, out-of-interval values and magnitudes 1e2 (1e4 for shallow models). Checked on every step: parameters finite => loss "
    "not NaN; loss finite => every gradient leaf finite; finite loss and gradients => next parameters finite; all losses finite => "
    "returned parameters finite.",
})

ASSUMPTIONS = {
    "C15": [
        "ordered io_callback delivers events in program order (jax guarantee); jax.effects_barrier() flushes them",
        "validation rows are observed through the loss calls made on them; the bound on unseen rows assumes validation, "
        "like training, skips less than one batch per epoch (documented behaviour of get_batches)",
        "exploration is seeded sampling, not enumeration: a clean batch is evidence, not proof",
        "the jr.permutation recording proxy only sharpens the 'trailing remainder' clause; when it is not interpretable the clause is skipped",
        "concurrent callers: threads can be switched only at line events of eagerly executing frames of flowjax/train/*.py (not inside jitted "
        "computations, jax internals or other flowjax modules); 'same key => same run' is read as holding next to other callers too",
    ],
    "C16": [
        "ordered io_callback delivers events in program order; the counting optimiser makes c equal the number of applied gradient steps",
        "with ties at the running minimum or NaN in the recorded losses the statement does not define 'the best'; those runs are checked "
        "under the relaxed oracle (counted separately in oracle_modes); +-inf are ordinary ordered values under the strict oracle",
        "exploration is seeded sampling, not enumeration of all orderings",
        "concurrent callers: switch points are the eager lines of flowjax/train/*.py only; run-to-run equality is NOT demanded for C16 groups "
        "(the statement does not promise determinism), only the stop/selection clauses per caller",
    ],
}

_B_ASSUME = [
    "ordered io_callback delivers events in program order; per-step snapshots are the parameters offered to the optimiser",
    "states with a non-finite leaf are outside the properties' quantifier (finite raw values) and are skipped and counted (vacuous_* probes)",
    "seeded sampling of models, schedules and faults, not enumeration",
    "the static (non-array) part of a model is shared between runs of one structure so compiled programs are re-used; it holds no seed-dependent value",
]
ASSUMPTIONS.update({
    "C12": _B_ASSUME + ["method equality is evaluated inside one jitted program per structure (tolerance 1e-6 as a guard)"],
    "C11": _B_ASSUME + ["planar invertibility is checked only when |w.u| <= 50 (float32 softplus/log1p saturate beyond; the property's raw box is about single raw values, the planar argument is a product)"],
    "C09": _B_ASSUME + ["a NaN Jacobian entry carries no dependency information (C18's subject): counted as vacuous, never failed"],
    "C18": _B_ASSUME + ["scope is the training-poison clause: gradients w.r.t. parameters along maximum-likelihood training; magnitudes capped at 1e2 for multi-layer flows (float32 overflow is not the property's subject)"],
})

NOT_EXERCISED = {
    "C09": ["the flow factories block_neural_autoregressive_flow / triangular_spline_flow themselves (WeightNormalization fails under filter_vmap "
            "with the installed equinox); their layers are built eagerly and chained / stacked+scanned instead",
            "the numerical (bisection) inverse direction of a block autoregressive network",
            "the mask helper patterns as functions of sizes (pure)"],
    "C11": ["rejection of invalid constructor arguments as a function of the argument alone (edge-of-validity sweep: a single pure call); "
            "what IS exercised is that a fixed panel of invalid arguments stays rejected along process histories"],
    "C12": ["the numerical inverse direction of block autoregressive networks", "unwrap of arbitrary pytrees beyond the zoo's shapes",
            "vmapped-constructed wrapper == stack of individually constructed ones (pure)"],
    "C18": ["gradients w.r.t. the input; log_prob at arbitrary single points outside a training run (pure)", "the block_neural_autoregressive_flow factory itself (layers are built eagerly instead)"],
}

# probes that a full-budget batch must reach (checked by `selftest reach`)
REQUIRED_PROBES = {
    "C12": ["prelude_sibling_trained", "has_frozen", "frozen_strict_subset", "all_frozen", "freeze_NT_subtree", "freeze_fn_leaves", "trainable_moved", "teleport_fired", "frozen_grad_leaves_checked", "states_checked"],
    "C11": ["rejection_panel_items", "history_failed_calls", "ctor_roundtrips", "states_checked", "teleport_fired", "sig_scale_min", "sig_tri_diag_min", "sig_df_min", "sig_mix_lse_absmax", "sig_spline_x_mindiff", "sig_planar_margin", "wn_nodes_checked"],
    "C09": ["maf_nodes", "coupling_nodes", "states_checked", "teleport_fired", "sig_cond", "all_positive_states_checked", "prelude_same_sizes", "bnaf_nodes", "bnaf_strict_diag_states"],
    "C18": ["prelude_sibling_used", "fault_rows", "fault_row_batches", "finite_loss_with_fault_row", "poison_checks", "inf_loss_batches", "clean_run"],
    "C15": ["batch_1", "batch_gt_n", "cond", "remainder_skipped", "val_single_batch", "perm_seam_checked", "group", "group_switches"],
    "C16": ["early_stop_hit", "best_not_last", "best_not_first", "tie_at_min", "nan_in_val", "inf_in_val", "max_epochs_0",
            "patience_0", "multi_val_batches", "multi_train_batches", "vi_steps_0", "nan_in_losses", "inf_in_losses", "ran_to_max", "group", "group_switches"],
}
OPTIONAL_FAULTS = {"C15": ["loss_tie_at_min", "degenerate_zero_epochs_or_steps", "loss_near_tie"]}

# fault kinds each property's worlds can schedule (evidence lists only these)
ENABLED_FAULTS = {
    "C09": ["opt_teleport", "opt_teleport_positive", "grad_huge", "opt_signflip", "degenerate_knobs"],
    "C11": ["opt_teleport", "grad_huge", "opt_signflip", "degenerate_knobs"],
    "C12": ["opt_teleport", "grad_huge", "opt_signflip", "opt_zero", "grad_nan", "grad_inf", "degenerate_knobs"],
    "C18": ["data_fault_row", "opt_teleport"],
}
