#!/bin/bash
# tools_eval_seeded.sh <deliver_dir> <PROP> [--skip-suite]
# Confirms a sub-agent's breaking change in a fresh scratch worktree of /repo HEAD (never in /repo itself):
#   demo passes on the clean tree, fails with the patch; the pinned suite gives the baseline's pass/fail sets;
#   then runs the property's quick check against the patched tree (VERIF_REPO) and reports whether it is caught.
set -u
HERE="$(cd "$(dirname "${BASH_SOURCE[0]}")" && pwd)"
D=$(realpath "$1"); P=$2; SKIP=${3:-}
WT=$(mktemp -d /tmp/ev-XXXXXX); rmdir "$WT"
git -C /repo worktree add --detach "$WT" HEAD >/dev/null 2>&1 || { echo "worktree failed"; exit 2; }
cleanup() { git -C /repo worktree remove --force "$WT" >/dev/null 2>&1; rm -rf "$WT"; }
trap cleanup EXIT
cd "$WT"
echo "== demo on clean tree"; PYTHONPATH=$WT timeout 900 /venv/bin/python "$D/demo.py" > "$D/eval_demo_clean.log" 2>&1; rc_clean=$?
git apply "$D/patch.diff" || { echo "patch does not apply"; exit 2; }
echo "== demo with patch"; PYTHONPATH=$WT timeout 900 /venv/bin/python "$D/demo.py" > "$D/eval_demo_patched.log" 2>&1; rc_pat=$?
suite="skipped"
if [ "$SKIP" != "--skip-suite" ]; then
  echo "== pinned suite with patch"
  timeout 3000 /venv/bin/python -m pytest -ra -q -p no:cacheprovider --timeout=900 --continue-on-collection-errors > "$D/eval_suite.log" 2>&1
  grep -E "^(FAILED|ERROR)" "$D/eval_suite.log" | sed 's/ - .*//' | sort > "$D/eval_suite_failed.txt"
  if diff -q "$D/eval_suite_failed.txt" $HERE/seeded_baseline_failed.txt >/dev/null; then suite="same-as-baseline ($(tail -1 "$D/eval_suite.log"))"; else suite="DIFFERS: $(diff "$D/eval_suite_failed.txt" $HERE/seeded_baseline_failed.txt | head -5 | tr '\n' ' ')"; fi
fi
echo "== $P quick check against patched tree"
cd "$HERE"
VERIF_REPO=$WT VERIF_NO_EVIDENCE=1 VERIF_REPLAY_DIR=$D/replays VERIF_WORK=$WT timeout 1800 bin/check $P quick > "$D/eval_check.log" 2>&1; rc_chk=$?
echo "RESULT demo_clean_rc=$rc_clean demo_patched_rc=$rc_pat suite=[$suite] check_rc=$rc_chk"
grep -E "^(VIOLATION|HARNESS-ERROR)" "$D/eval_check.log" | cut -c1-400 | head -3
